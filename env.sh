# Shared settings for check / c16.sh / selftest.sh (sourced).
#   VERIF_REPO_OVERRIDE  build against this copy of the repository instead of /repo (cargo `paths`
#                        override; used only by the sensitivity self-test with scratch worktrees)
#   VERIF_TARGET_DIR     cargo target dir (default sim/target)
#   VERIF_OUT            where evidence/ and replays/ are written (default /verif)
HERE="${HERE:-$(cd "$(dirname "${BASH_SOURCE[0]}")" && pwd)}"
SIM="$HERE/sim"
export CARGO_NET_OFFLINE=true
TARGET="${VERIF_TARGET_DIR:-$SIM/target}"
OUT="${VERIF_OUT:-$HERE}"
CARGO_CFG=()
if [ -n "${VERIF_REPO_OVERRIDE:-}" ]; then
  CARGO_CFG=(--config "paths=[\"$VERIF_REPO_OVERRIDE\"]")
fi
exe() { echo "$TARGET/$1/asesim"; }
build() { # profile...
  mkdir -p "$TARGET"
  for p in "$@"; do
    if ! (cd "$SIM" && CARGO_TARGET_DIR="$TARGET" cargo build --offline --quiet "${CARGO_CFG[@]}" --profile "$p" 2> "$TARGET/build-$p.log"); then
      if grep -q "could not compile \`asefile\`" "$TARGET/build-$p.log"; then
        echo "HARNESS-ERROR: the repository itself does not compile (profile $p):" >&2
      else
        echo "HARNESS-ERROR: build of profile $p failed:" >&2
      fi
      grep -E "^error" -A12 "$TARGET/build-$p.log" | head -40 >&2
      return 2
    fi
  done
  return 0
}
