//! C16, obligation 1: the sprite type (and the borrowed views handed out by its accessors) are
//! `Send + Sync`. This crate only has to type-check; a failure to do so is the violation
//! `not-send-sync`.

fn assert_send_sync<T: Send + Sync>() {}

pub fn sprite_is_send_and_sync() {
    assert_send_sync::<asefile::AsepriteFile>();
    assert_send_sync::<asefile::Frame<'static>>();
    assert_send_sync::<asefile::Layer<'static>>();
    assert_send_sync::<asefile::Cel<'static>>();
    assert_send_sync::<asefile::Tilemap<'static>>();
    assert_send_sync::<asefile::Tileset>();
    assert_send_sync::<asefile::TilesetsById>();
    assert_send_sync::<asefile::ColorPalette>();
    assert_send_sync::<asefile::Tag>();
    assert_send_sync::<asefile::Slice>();
    assert_send_sync::<asefile::UserData>();
    assert_send_sync::<asefile::ExternalFilesById>();
    assert_send_sync::<asefile::Tile>();
}

/// The value can actually be moved to and shared with other threads.
pub fn share(f: asefile::AsepriteFile) -> usize {
    let f = std::sync::Arc::new(f);
    let g = f.clone();
    let h = std::thread::spawn(move || g.width());
    f.height() + h.join().unwrap()
}

/// Informational (`--features notes`): C16 names the sprite type, not the unnameable iterator types
/// behind `impl Iterator` return values. Losing `Send`/`Sync` there is an API change a maintainer
/// wants to hear about, but the sprite can still be shared, so it is reported as a NOTE only.
#[cfg(feature = "notes")]
pub fn returned_iterators_are_send_and_sync(f: &asefile::AsepriteFile) {
    fn val<T: Send + Sync>(_: &T) {}
    // the only `impl Trait` return value of the public API at the pinned commit
    val(&f.tilesets().iter());
    val(&f.external_files().map().iter());
    val(&f.slices().iter());
}
