//! Client workload: every public accessor of a loaded sprite as an `Op` with a digest result.
//! A workload is a list of ops; each op is executed under its own `catch_unwind` by the caller.

use crate::rng::{Digest, Rng};
use asefile::{AsepriteFile, ExternalFileId, LayerType, PixelFormat, UserData};
use serde_json::{json, Value};

#[derive(Clone, Debug, PartialEq, Eq, PartialOrd, Ord, Hash)]
pub enum Op {
    Meta,
    Palette,
    PaletteColor(u32),
    Layers,
    LayerInfo(u32),
    LayerByName(String),
    VisibleChain(u32),
    FrameInfo(u32),
    FrameImage(u32),
    CelInfo(u32, u32),
    CelImage(u32, u32),
    Tags,
    GetTag(u32),
    TagByName(String),
    Slices,
    ExtFiles,
    ExtFileById(u32),
    SpriteUd,
    Tilesets,
    TilesetGet(u32),
    TilesetImage(u32),
    TileImage(u32, u32),
    Tilemap(u32, u32),
    TilemapTile(u32, u32, u32, u32),
    TilemapSweep(u32, u32),
    TilemapImage(u32, u32),
    DebugFmt,
    /// A call whose argument is outside its documented range (the documentation says it
    /// panics). Used only by C16 histories: the panic itself is the expected, repeatable outcome,
    /// and it must leave the sprite exactly as usable as before.
    OutOfRange(u32),
}

impl Op {
    pub fn name(&self) -> &'static str {
        match self {
            Op::Meta => "meta",
            Op::Palette => "palette",
            Op::PaletteColor(..) => "palette_color",
            Op::Layers => "layers",
            Op::LayerInfo(..) => "layer_info",
            Op::LayerByName(..) => "layer_by_name",
            Op::VisibleChain(..) => "layer_is_visible",
            Op::FrameInfo(..) => "frame_info",
            Op::FrameImage(..) => "frame_image",
            Op::CelInfo(..) => "cel_info",
            Op::CelImage(..) => "cel_image",
            Op::Tags => "tags",
            Op::GetTag(..) => "get_tag",
            Op::TagByName(..) => "tag_by_name",
            Op::Slices => "slices",
            Op::ExtFiles => "external_files",
            Op::ExtFileById(..) => "external_file_by_id",
            Op::SpriteUd => "sprite_user_data",
            Op::Tilesets => "tilesets",
            Op::TilesetGet(..) => "tileset_get",
            Op::TilesetImage(..) => "tileset_image",
            Op::TileImage(..) => "tile_image",
            Op::Tilemap(..) => "tilemap",
            Op::TilemapTile(..) => "tilemap_tile",
            Op::TilemapSweep(..) => "tilemap_sweep",
            Op::TilemapImage(..) => "tilemap_image",
            Op::DebugFmt => "debug_fmt",
            Op::OutOfRange(..) => "out_of_range_call",
        }
    }
    pub fn to_json(&self) -> Value {
        let (a, s): (Vec<u32>, Option<&str>) = match self {
            Op::PaletteColor(a) | Op::LayerInfo(a) | Op::VisibleChain(a) | Op::FrameInfo(a)
            | Op::FrameImage(a) | Op::GetTag(a) | Op::ExtFileById(a) | Op::TilesetGet(a)
            | Op::TilesetImage(a) | Op::OutOfRange(a) => (vec![*a], None),
            Op::CelInfo(a, b) | Op::CelImage(a, b) | Op::TileImage(a, b) | Op::Tilemap(a, b)
            | Op::TilemapSweep(a, b) | Op::TilemapImage(a, b) => (vec![*a, *b], None),
            Op::TilemapTile(a, b, c, d) => (vec![*a, *b, *c, *d], None),
            Op::LayerByName(s) | Op::TagByName(s) => (vec![], Some(s.as_str())),
            _ => (vec![], None),
        };
        match s {
            Some(s) => json!({"op": self.name(), "s": s}),
            None => json!({"op": self.name(), "a": a}),
        }
    }
    pub fn from_json(v: &Value) -> Option<Op> {
        let name = v.get("op")?.as_str()?;
        let a: Vec<u32> = v
            .get("a")
            .and_then(|a| a.as_array())
            .map(|a| a.iter().filter_map(|x| x.as_u64()).map(|x| x as u32).collect())
            .unwrap_or_default();
        let s = v.get("s").and_then(|s| s.as_str()).unwrap_or("").to_string();
        let g = |i: usize| a.get(i).copied().unwrap_or(0);
        Some(match name {
            "meta" => Op::Meta,
            "palette" => Op::Palette,
            "palette_color" => Op::PaletteColor(g(0)),
            "layers" => Op::Layers,
            "layer_info" => Op::LayerInfo(g(0)),
            "layer_by_name" => Op::LayerByName(s),
            "layer_is_visible" => Op::VisibleChain(g(0)),
            "frame_info" => Op::FrameInfo(g(0)),
            "frame_image" => Op::FrameImage(g(0)),
            "cel_info" => Op::CelInfo(g(0), g(1)),
            "cel_image" => Op::CelImage(g(0), g(1)),
            "tags" => Op::Tags,
            "get_tag" => Op::GetTag(g(0)),
            "tag_by_name" => Op::TagByName(s),
            "slices" => Op::Slices,
            "external_files" => Op::ExtFiles,
            "external_file_by_id" => Op::ExtFileById(g(0)),
            "sprite_user_data" => Op::SpriteUd,
            "tilesets" => Op::Tilesets,
            "tileset_get" => Op::TilesetGet(g(0)),
            "tileset_image" => Op::TilesetImage(g(0)),
            "tile_image" => Op::TileImage(g(0), g(1)),
            "tilemap" => Op::Tilemap(g(0), g(1)),
            "tilemap_tile" => Op::TilemapTile(g(0), g(1), g(2), g(3)),
            "tilemap_sweep" => Op::TilemapSweep(g(0), g(1)),
            "tilemap_image" => Op::TilemapImage(g(0), g(1)),
            "debug_fmt" => Op::DebugFmt,
            "out_of_range_call" => Op::OutOfRange(g(0)),
            _ => return None,
        })
    }
    pub fn is_render(&self) -> bool {
        matches!(
            self,
            Op::FrameImage(..) | Op::CelImage(..) | Op::TilemapImage(..) | Op::TilesetImage(..) | Op::TileImage(..) | Op::DebugFmt
        )
    }
}

/// Work estimates derived by the harness's own walker from the bytes that were loaded.
#[derive(Clone, Copy, Debug)]
pub struct Costs {
    pub render: u64, // blend steps of the most expensive frame/cel render (upper bound)
    pub debug: u64,  // decoded pixels Debug would print
    pub cap: u64,
}

impl Costs {
    pub fn unknown(cap: u64) -> Costs {
        Costs {
            render: u64::MAX,
            debug: u64::MAX,
            cap,
        }
    }
}

#[derive(Clone, Debug, PartialEq)]
pub enum OpOutcome {
    Done(u64),
    Skipped,         // legitimately too costly (or not applicable to this sprite's shape)
    BadDims(String), // returned image does not have the documented dimensions
}

fn ud(d: &mut Digest, u: Option<&UserData>) {
    match u {
        None => d.byte(0),
        Some(u) => {
            d.byte(1);
            match &u.text {
                None => d.byte(0),
                Some(t) => {
                    d.byte(1);
                    d.str(t)
                }
            }
            match &u.color {
                None => d.byte(0),
                Some(c) => {
                    d.byte(1);
                    d.bytes(&c.0)
                }
            }
        }
    }
}

fn img(d: &mut Digest, w: u32, h: u32, raw: &[u8]) {
    d.u64(w as u64);
    d.u64(h as u64);
    d.bytes(raw);
}

fn layer_type(d: &mut Digest, t: LayerType) {
    match t {
        LayerType::Image => d.byte(0),
        LayerType::Group => d.byte(1),
        LayerType::Tilemap(i) => {
            d.byte(2);
            d.u64(i as u64)
        }
    }
}

const TILE_EXTREMES: &[u32] = &[
    0,
    1,
    2,
    0x7FFF,
    0x8000,
    0xFFFF,
    0x1_0000,
    0x7FFF_FFFE,
    0x7FFF_FFFF,
    0x8000_0000,
    0x8000_0001,
    0xFFFF_FFFE,
    0xFFFF_FFFF,
];

/// Execute one op. In-range arguments are established here: indices into frames / layers /
/// tags are reduced modulo the actual counts; the documented-total lookups get raw arguments.
pub fn exec(f: &AsepriteFile, op: &Op, c: &Costs) -> OpOutcome {
    let mut d = Digest::new();
    let nl = f.num_layers();
    let nf = f.num_frames();
    let (cw, ch) = (f.width() as u32, f.height() as u32);
    let canvas = cw as u64 * ch as u64;
    let render_ok = c.render <= c.cap && canvas <= c.cap;
    match op {
        Op::Meta => {
            d.u64(f.width() as u64);
            d.u64(f.height() as u64);
            let (a, b) = f.size();
            d.u64(a as u64);
            d.u64(b as u64);
            d.u64(nf as u64);
            d.u64(nl as u64);
            match f.pixel_format() {
                PixelFormat::Rgba => d.byte(0),
                PixelFormat::Grayscale => d.byte(1),
                PixelFormat::Indexed {
                    transparent_color_index,
                } => {
                    d.byte(2);
                    d.byte(transparent_color_index)
                }
            }
            d.u64(f.pixel_format().bytes_per_pixel() as u64);
            d.u64(f.pixel_format().transparent_color_index().map_or(999, |x| x as u64));
            d.u64(f.transparent_color_index().map_or(999, |x| x as u64));
            d.byte(f.is_indexed_color() as u8);
            d.u64(f.num_tags() as u64);
        }
        Op::Palette => match f.palette() {
            None => d.byte(0),
            Some(p) => {
                d.byte(1);
                d.u64(p.num_colors() as u64);
                for i in 0..320u32 {
                    match p.color(i) {
                        None => d.byte(0),
                        Some(e) => {
                            d.byte(1);
                            d.u64(e.id() as u64);
                            d.bytes(&e.raw_rgba8());
                            d.bytes(&[e.red(), e.green(), e.blue(), e.alpha()]);
                            d.str(e.name().unwrap_or("\u{1}none"));
                        }
                    }
                }
            }
        },
        Op::PaletteColor(i) => match f.palette().and_then(|p| p.color(*i)) {
            None => d.byte(0),
            Some(e) => {
                d.u64(e.id() as u64);
                d.bytes(&e.raw_rgba8());
            }
        },
        Op::Layers => {
            let mut n = 0u64;
            for l in f.layers() {
                d.u64(l.id() as u64);
                n += 1;
                if n > 70_000 {
                    break;
                }
            }
            d.u64(n);
        }
        Op::LayerInfo(k) => {
            if nl == 0 {
                return OpOutcome::Skipped;
            }
            let l = f.layer(k % nl);
            d.u64(l.id() as u64);
            d.u64(l.flags().bits() as u64);
            d.str(l.name());
            d.u64(l.blend_mode() as u64);
            d.byte(l.opacity());
            layer_type(&mut d, l.layer_type());
            d.byte(l.is_tilemap() as u8);
            d.u64(l.parent().map_or(u64::MAX, |p| p.id() as u64));
            ud(&mut d, l.user_data());
        }
        Op::VisibleChain(k) => {
            if nl == 0 {
                return OpOutcome::Skipped;
            }
            let l = f.layer(k % nl);
            d.byte(l.is_visible() as u8);
            // walk parents iteratively as a client would
            let mut depth = 0u64;
            let mut cur = l.parent().map(|p| p.id());
            while let Some(id) = cur {
                depth += 1;
                d.u64(id as u64);
                cur = f.layer(id).parent().map(|q| q.id());
                if depth > 70_000 {
                    break;
                }
            }
            d.u64(depth);
        }
        Op::LayerByName(s) => match f.layer_by_name(s) {
            None => d.byte(0),
            Some(l) => d.u64(l.id() as u64 + 1),
        },
        Op::FrameInfo(k) => {
            if nf == 0 {
                return OpOutcome::Skipped;
            }
            let fr = f.frame(k % nf);
            d.u64(fr.id() as u64);
            d.u64(fr.duration() as u64);
        }
        Op::FrameImage(k) => {
            if nf == 0 || !render_ok {
                return OpOutcome::Skipped;
            }
            let im = f.frame(k % nf).image();
            if im.dimensions() != (cw, ch) {
                return OpOutcome::BadDims(format!("frame image {:?} canvas {:?}", im.dimensions(), (cw, ch)));
            }
            img(&mut d, im.width(), im.height(), im.as_raw());
        }
        Op::CelInfo(fi, li) => {
            if nf == 0 || nl == 0 {
                return OpOutcome::Skipped;
            }
            let (fi, li) = (fi % nf, li % nl);
            let (fr, la) = (f.frame(fi), f.layer(li));
            let routes = [f.cel(fi, li), fr.layer(li), la.frame(fi)];
            for c in routes.iter() {
                d.u64(c.frame() as u64);
                d.u64(c.layer() as u64);
                d.byte(c.is_empty() as u8);
                let (x, y) = c.top_left();
                d.i64(x as i64);
                d.i64(y as i64);
                d.byte(c.is_tilemap() as u8);
                ud(&mut d, c.user_data());
            }
        }
        Op::CelImage(fi, li) => {
            if nf == 0 || nl == 0 || !render_ok {
                return OpOutcome::Skipped;
            }
            let im = f.cel(fi % nf, li % nl).image();
            if im.dimensions() != (cw, ch) {
                return OpOutcome::BadDims(format!("cel image {:?} canvas {:?}", im.dimensions(), (cw, ch)));
            }
            img(&mut d, im.width(), im.height(), im.as_raw());
        }
        Op::Tags => {
            let n = f.num_tags();
            d.u64(n as u64);
            for i in 0..n.min(70_000) {
                let t = f.tag(i);
                d.str(t.name());
                d.u64(t.from_frame() as u64);
                d.u64(t.to_frame() as u64);
                d.u64(t.animation_direction() as u64);
                d.u64(t.repeat().map_or(0, |x| x.get() as u64));
                ud(&mut d, t.user_data());
                let g = f.get_tag(i).expect("get_tag in range");
                d.str(g.name());
            }
        }
        Op::GetTag(i) => match f.get_tag(*i) {
            None => d.byte(0),
            Some(t) => {
                d.str(t.name());
                d.u64(t.from_frame() as u64);
            }
        },
        Op::TagByName(s) => match f.tag_by_name(s) {
            None => d.byte(0),
            Some(t) => {
                d.str(t.name());
                d.u64(t.from_frame() as u64);
                d.u64(t.to_frame() as u64);
            }
        },
        Op::Slices => {
            let s = f.slices();
            d.u64(s.len() as u64);
            for sl in s {
                d.str(&sl.name);
                ud(&mut d, sl.user_data.as_ref());
                d.u64(sl.keys.len() as u64);
                for k in &sl.keys {
                    d.u64(k.from_frame as u64);
                    d.i64(k.origin.0 as i64);
                    d.i64(k.origin.1 as i64);
                    d.u64(k.size.0 as u64);
                    d.u64(k.size.1 as u64);
                    match &k.slice9 {
                        None => d.byte(0),
                        Some(n) => {
                            d.i64(n.center_x as i64);
                            d.i64(n.center_y as i64);
                            d.u64(n.center_width as u64);
                            d.u64(n.center_height as u64);
                        }
                    }
                    match &k.pivot {
                        None => d.byte(0),
                        Some(p) => {
                            d.i64(p.0 as i64);
                            d.i64(p.1 as i64);
                        }
                    }
                }
            }
        }
        Op::ExtFiles => {
            // documented as a map: canonicalise by id
            let mut v: Vec<(u32, &str)> = f
                .external_files()
                .map()
                .iter()
                .map(|(k, e)| {
                    assert_eq!(k.value(), e.id().value());
                    (k.value(), e.name())
                })
                .collect();
            v.sort();
            d.u64(v.len() as u64);
            for (id, n) in v {
                d.u64(id as u64);
                d.str(n);
            }
        }
        Op::ExtFileById(i) => {
            let id = ExternalFileId::new(*i);
            let a = f.external_file_by_id(&id);
            let b = f.external_files().get(&id);
            match (a, b) {
                (None, None) => d.byte(0),
                (Some(a), Some(b)) => {
                    d.u64(a.id().value() as u64);
                    d.str(a.name());
                    d.str(b.name());
                }
                _ => d.byte(77),
            }
        }
        Op::SpriteUd => ud(&mut d, f.sprite_user_data()),
        Op::Tilesets => {
            let ts = f.tilesets();
            d.u64(ts.len() as u64);
            d.byte(ts.is_empty() as u8);
            let mut v: Vec<&asefile::Tileset> = ts.iter().collect();
            v.sort_by_key(|t| t.id());
            for t in v {
                d.u64(t.id() as u64);
                d.byte(t.empty_tile_is_id_zero() as u8);
                d.u64(t.tile_count() as u64);
                d.u64(t.tile_size().width() as u64);
                d.u64(t.tile_size().height() as u64);
                d.i64(t.base_index() as i64);
                d.str(t.name());
                match t.external_file() {
                    None => d.byte(0),
                    Some(e) => {
                        d.u64(e.external_file_id().value() as u64);
                        d.u64(e.tileset_id() as u64);
                    }
                }
            }
        }
        Op::TilesetGet(i) => match f.tilesets().get(*i) {
            None => d.byte(0),
            Some(t) => {
                d.u64(t.id() as u64);
                d.u64(t.tile_count() as u64);
            }
        },
        Op::TilesetImage(k) => {
            let Some(t) = nth_tileset(f, *k) else { return OpOutcome::Skipped };
            let (tw, th) = (t.tile_size().width() as u64, t.tile_size().height() as u64);
            let px = (t.tile_count() as u64).saturating_mul(tw).saturating_mul(th);
            if px > c.cap {
                return OpOutcome::Skipped;
            }
            let im = t.image();
            let want = (tw as u32, (th * t.tile_count() as u64) as u32);
            if im.dimensions() != want {
                return OpOutcome::BadDims(format!("tileset image {:?} want {:?}", im.dimensions(), want));
            }
            img(&mut d, im.width(), im.height(), im.as_raw());
        }
        Op::TileImage(k, idx) => {
            let Some(t) = nth_tileset(f, *k) else { return OpOutcome::Skipped };
            if t.tile_count() == 0 {
                return OpOutcome::Skipped;
            }
            let (tw, th) = (t.tile_size().width() as u64, t.tile_size().height() as u64);
            let px = (t.tile_count() as u64).saturating_mul(tw).saturating_mul(th);
            if px > c.cap {
                // tile_image converts the whole tileset first
                return OpOutcome::Skipped;
            }
            let im = t.tile_image(idx % t.tile_count());
            if im.dimensions() != (tw as u32, th as u32) {
                return OpOutcome::BadDims(format!("tile image {:?} want {:?}", im.dimensions(), (tw, th)));
            }
            img(&mut d, im.width(), im.height(), im.as_raw());
        }
        Op::Tilemap(l, fr) => match f.tilemap(*l, *fr) {
            None => d.byte(0),
            Some(tm) => {
                d.u64(tm.width() as u64);
                d.u64(tm.height() as u64);
                let (a, b) = tm.tile_size();
                d.u64(a as u64);
                d.u64(b as u64);
                let (a, b) = tm.tile_offsets();
                d.i64(a as i64);
                d.i64(b as i64);
                let (a, b) = tm.pixel_offsets();
                d.i64(a as i64);
                d.i64(b as i64);
                d.u64(tm.tileset().id() as u64);
            }
        },
        Op::TilemapTile(l, fr, x, y) => {
            let Some(tm) = nth_tilemap(f, *l, *fr) else { return OpOutcome::Skipped };
            d.u64(tm.tile(*x, *y).id() as u64);
        }
        Op::TilemapSweep(l, fr) => {
            let Some(tm) = nth_tilemap(f, *l, *fr) else { return OpOutcome::Skipped };
            let w = tm.width().min(48) + 2;
            let h = tm.height().min(48) + 2;
            for y in 0..h {
                for x in 0..w {
                    d.u64(tm.tile(x, y).id() as u64);
                }
            }
            for x in TILE_EXTREMES {
                for y in TILE_EXTREMES {
                    d.u64(tm.tile(*x, *y).id() as u64);
                }
            }
            // logical edge
            d.u64(tm.tile(tm.width().wrapping_sub(1), tm.height().wrapping_sub(1)).id() as u64);
            d.u64(tm.tile(tm.width(), tm.height()).id() as u64);
        }
        Op::TilemapImage(l, fr) => {
            let Some(tm) = nth_tilemap(f, *l, *fr) else { return OpOutcome::Skipped };
            if !render_ok {
                return OpOutcome::Skipped;
            }
            let im = tm.image();
            if im.dimensions() != (cw, ch) {
                return OpOutcome::BadDims(format!("tilemap image {:?} canvas {:?}", im.dimensions(), (cw, ch)));
            }
            img(&mut d, im.width(), im.height(), im.as_raw());
        }
        Op::OutOfRange(k) => {
            // each of these is documented to panic; the caller records the panic as the outcome
            match k % 6 {
                0 => d.u64(f.layer(nl).id() as u64),
                1 => d.u64(f.frame(nf).id() as u64),
                2 => d.byte(f.cel(nf, 0).is_empty() as u8),
                3 => d.str(f.tag(f.num_tags()).name()),
                4 => {
                    let Some(t) = nth_tileset(f, 0) else { return OpOutcome::Skipped };
                    let px = (t.tile_count() as u64).saturating_mul(t.tile_size().width() as u64).saturating_mul(t.tile_size().height() as u64);
                    if px > c.cap {
                        return OpOutcome::Skipped;
                    }
                    let im = t.tile_image(t.tile_count());
                    d.u64(im.width() as u64);
                }
                _ => {
                    if nf == 0 {
                        return OpOutcome::Skipped;
                    }
                    d.byte(f.frame(0).layer(nl).is_empty() as u8)
                }
            }
        }
        Op::DebugFmt => {
            if c.debug > c.cap / 8 {
                return OpOutcome::Skipped;
            }
            use std::fmt::Write;
            struct H(Digest, u64);
            impl Write for H {
                fn write_str(&mut self, s: &str) -> std::fmt::Result {
                    for b in s.bytes() {
                        self.0.byte(b);
                    }
                    self.1 += s.len() as u64;
                    Ok(())
                }
            }
            let mut h = H(Digest::new(), 0);
            write!(h, "{:?}", f).expect("Debug formatting failed");
            d.u64(h.0.finish());
            d.u64(h.1);
        }
    }
    OpOutcome::Done(d.finish())
}

fn nth_tileset(f: &AsepriteFile, k: u32) -> Option<&asefile::Tileset> {
    let mut v: Vec<&asefile::Tileset> = f.tilesets().iter().collect();
    if v.is_empty() {
        return None;
    }
    v.sort_by_key(|t| t.id());
    Some(v[k as usize % v.len()])
}

/// The k-th existing tilemap (layer-major), starting the search at (l, fr) reduced into range.
fn nth_tilemap(f: &AsepriteFile, l: u32, fr: u32) -> Option<asefile::Tilemap<'_>> {
    let (nl, nf) = (f.num_layers(), f.num_frames());
    if nl == 0 || nf == 0 {
        return None;
    }
    // bounded search so that huge sprites stay cheap
    let total = (nl as u64 * nf as u64).min(512);
    let start = (l % nl) as u64 * nf as u64 + (fr % nf) as u64;
    for k in 0..total {
        let idx = (start + k) % (nl as u64 * nf as u64);
        let (li, fi) = ((idx / nf as u64) as u32, (idx % nf as u64) as u32);
        if let Some(tm) = f.tilemap(li, fi) {
            return Some(tm);
        }
    }
    None
}

/// The full observation sweep for a sprite of this shape (bounded for huge sprites).
pub fn full_ops(f: &AsepriteFile, r: &mut Rng) -> Vec<Op> {
    let nl = f.num_layers();
    let nf = f.num_frames();
    let mut v = vec![Op::Meta, Op::Palette, Op::Layers, Op::Tags, Op::Slices, Op::ExtFiles, Op::SpriteUd, Op::Tilesets];
    let sample = |n: u32, cap: u32, r: &mut Rng| -> Vec<u32> {
        if n <= cap {
            (0..n).collect()
        } else {
            let mut s: Vec<u32> = vec![0, n - 1, n / 2];
            while (s.len() as u32) < cap {
                s.push(r.below(n as u64) as u32);
            }
            s
        }
    };
    let ls = sample(nl, 24, r);
    let fs = sample(nf, 12, r);
    for l in &ls {
        v.push(Op::LayerInfo(*l));
        v.push(Op::VisibleChain(*l));
    }
    if nl > 0 {
        v.push(Op::VisibleChain(nl - 1));
        v.push(Op::LayerByName(f.layer(*r.pick(&ls)).name().to_string()));
    }
    v.push(Op::LayerByName("no such layer".into()));
    for fr in &fs {
        v.push(Op::FrameInfo(*fr));
        v.push(Op::FrameImage(*fr));
    }
    let mut pairs = 0;
    'outer: for fr in &fs {
        for l in &ls {
            v.push(Op::CelInfo(*fr, *l));
            v.push(Op::CelImage(*fr, *l));
            v.push(Op::Tilemap(*l, *fr));
            pairs += 1;
            if pairs >= 96 {
                break 'outer;
            }
        }
    }
    let nts = f.tilesets().len().min(6);
    for k in 0..nts {
        v.push(Op::TilesetImage(k));
        let t = nth_tileset(f, k).unwrap();
        for i in sample(t.tile_count(), 6, r) {
            v.push(Op::TileImage(k, i));
        }
        v.push(Op::TilesetGet(t.id()));
    }
    v.push(Op::TilesetGet(0xFFFF_FFFF));
    // tilemaps: every (layer, frame) among the samples that has one
    let mut tms = 0;
    for l in &ls {
        for fr in &fs {
            if f.tilemap(*l, *fr).is_some() && tms < 8 {
                tms += 1;
                v.push(Op::TilemapSweep(*l, *fr));
                v.push(Op::TilemapImage(*l, *fr));
            }
        }
    }
    // documented-total lookups at extreme arguments
    v.push(Op::Tilemap(nl, 0));
    v.push(Op::Tilemap(0, nf));
    v.push(Op::Tilemap(u32::MAX, u32::MAX));
    v.push(Op::GetTag(f.num_tags()));
    v.push(Op::GetTag(u32::MAX));
    v.push(Op::TagByName("nope".into()));
    if f.num_tags() > 0 {
        v.push(Op::TagByName(f.tag(f.num_tags() - 1).name().to_string()));
    }
    v.push(Op::PaletteColor(256));
    v.push(Op::PaletteColor(u32::MAX));
    v.push(Op::ExtFileById(0));
    v.push(Op::ExtFileById(1));
    v.push(Op::ExtFileById(u32::MAX));
    v.push(Op::DebugFmt);
    v
}

/// A random client history (repeats likely), arguments in their documented ranges.
pub fn random_ops(r: &mut Rng, n: usize, nl: u32, nf: u32) -> Vec<Op> {
    let nl = nl.max(1);
    let nf = nf.max(1);
    let ext = |r: &mut Rng| -> u32 {
        if r.chance(1, 2) {
            *r.pick(TILE_EXTREMES)
        } else {
            r.below(12) as u32
        }
    };
    let mut v = Vec::with_capacity(n);
    for _ in 0..n {
        let l = r.below(nl.min(64) as u64) as u32;
        let f = r.below(nf.min(64) as u64) as u32;
        let op = match r.below(30) {
            0 => Op::Meta,
            1 => Op::Palette,
            2 => Op::PaletteColor(ext(r)),
            3 => Op::Layers,
            4 | 5 => Op::LayerInfo(l),
            6 => Op::VisibleChain(l),
            7 => Op::FrameInfo(f),
            8 | 9 | 10 => Op::FrameImage(f),
            11 | 12 => Op::CelInfo(f, l),
            13 | 14 => Op::CelImage(f, l),
            15 => Op::Tags,
            16 => Op::GetTag(ext(r)),
            17 => Op::Slices,
            18 => Op::ExtFiles,
            19 => Op::ExtFileById(ext(r)),
            20 => Op::SpriteUd,
            21 => Op::Tilesets,
            22 => Op::TilesetGet(ext(r)),
            23 => Op::TilesetImage(r.below(4) as u32),
            24 => Op::TileImage(r.below(4) as u32, r.below(40) as u32),
            25 => Op::Tilemap(if r.chance(1, 4) { ext(r) } else { l }, if r.chance(1, 4) { ext(r) } else { f }),
            26 | 27 => Op::TilemapTile(l, f, ext(r), ext(r)),
            28 => Op::TilemapImage(l, f),
            _ => {
                if r.chance(1, 4) {
                    Op::DebugFmt
                } else {
                    Op::TilemapSweep(l, f)
                }
            }
        };
        v.push(op);
    }
    v
}
