//! Worker process: executes its share of the jobs of one property and streams progress marks,
//! aggregated statistics and violations to the supervisor over stdout.
//!
//! Protocol (one record per line):
//!   B <job> <sub>        about to execute this run (death is attributed to the last B)
//!   L <job> <sub>        the load of this run returned (C05: death after this is a use-death)
//!   V <json>             violation found by an in-process oracle (replay plan already written)
//!   S <json>             aggregated statistics of one finished job
//!   D                    all jobs done

use crate::exec::{self, Report};
use crate::plan::{Plan, Workload};
use crate::props::{self, Ctx, Job, JobKind, Tier};
use crate::rng::{mix, Digest};
use serde_json::{json, Value};
use std::collections::BTreeMap;
use std::io::Write;

fn emit(line: &str) {
    let out = std::io::stdout();
    let mut l = out.lock();
    let _ = l.write_all(line.as_bytes());
    let _ = l.write_all(b"\n");
    let _ = l.flush();
}

thread_local! {
    static CUR: std::cell::Cell<(u64, u64)> = const { std::cell::Cell::new((0, 0)) };
}

fn load_done(_run: u64) {
    let (j, s) = CUR.with(|c| c.get());
    let _p = crate::alloc::pause();
    emit(&format!("L {} {}", j, s));
}

#[derive(Default)]
pub struct Agg {
    pub evals: u64,
    pub counters: BTreeMap<String, u64>,
    pub distinct: Vec<u64>,
    pub samples: Vec<Value>,
    pub batch_digest: u64,
    pub max: BTreeMap<String, u64>,
}

impl Agg {
    fn inc(&mut self, k: &str, n: u64) {
        *self.counters.entry(k.to_string()).or_insert(0) += n;
    }
    fn maxi(&mut self, k: &str, n: u64) {
        let e = self.max.entry(k.to_string()).or_insert(0);
        if n > *e {
            *e = n;
        }
    }
    pub fn to_json(&self) -> Value {
        json!({
            "evals": self.evals,
            "counters": self.counters,
            "max": self.max,
            "distinct": self.distinct.iter().map(|d| format!("{:x}", d)).collect::<Vec<_>>(),
            "samples": self.samples,
            "batch_digest": format!("{:x}", self.batch_digest),
        })
    }
}

fn value_class(width: usize, v: u64) -> &'static str {
    let max = (1u64 << (8 * width)) - 1;
    let sign = 1u64 << (8 * width - 1);
    if v == 0 {
        "zero"
    } else if v == max {
        "max"
    } else if v == max - 1 {
        "max-1"
    } else if v == sign {
        "sign"
    } else if v == sign - 1 {
        "sign-1"
    } else if v <= 3 {
        "tiny"
    } else if v.is_power_of_two() {
        "pow2"
    } else if (v + 1).is_power_of_two() {
        "pow2-1"
    } else if v > sign {
        "upper-half"
    } else {
        "other"
    }
}

pub fn plan_sample(plan: &Plan, rep: &Report) -> Value {
    json!({
        "run": format!("{}:{}", plan.run >> 32, plan.run & 0xFFFF_FFFF),
        "base": plan.base_desc,
        "base_len": plan.base.len(),
        "faults": plan.edits.iter().map(|e| e.label.clone()).collect::<Vec<_>>(),
        "reader": {
            "wrapper": plan.wrapper.name(),
            "sizes": plan.reader.sizes,
            "eintr": plan.reader.eintr.iter().map(|(o, t)| json!([o, t])).collect::<Vec<_>>(),
            "error": plan.reader.error.map(|(at, k, s)| json!({"at": at, "kind": k.name(), "sticky": s})),
        },
        "threads": plan.threads,
        "sched_policy": plan.sched_policy,
        "outcome": rep.facts.outcome,
        "reader_calls": rep.facts.reader.as_ref().map(|r| r.calls),
        "ops_done": rep.facts.ops_done,
        "alloc_peak": rep.facts.alloc_peak,
    })
}

/// Fold one finished run into the aggregate: counters, fault kinds fired, reach probes,
/// distinct/non-trivial keys by the property's rule.
pub fn account(agg: &mut Agg, job: &Job, sub: u64, plan: &Plan, image: &[u8], rep: &Report) {
    let f = &rep.facts;
    // C05: every accessor call on a loaded sprite is one evaluation of "returns normally"
    agg.evals += f.evals.max(1) + if plan.mode == "use" { f.ops_done } else { 0 };
    agg.batch_digest = agg.batch_digest.wrapping_add(mix(&[job.id, sub, f.digest]));
    let changed = image != plan.base.as_slice();
    let outcome_short: String = f.outcome.chars().take(90).collect();
    agg.inc(&format!("outcome:{}", outcome_short), 1);
    for p in &f.probes {
        agg.inc(&format!("probe:{}", p), 1);
    }
    let mut fault_kinds: Vec<&str> = Vec::new();
    for e in &plan.edits {
        let kind = e.label.split(|c| c == ' ' || c == ':').next().unwrap_or("?");
        fault_kinds.push(kind);
    }
    fault_kinds.sort();
    fault_kinds.dedup();
    for k in &fault_kinds {
        agg.inc(&format!("fault-fired:{}", k), changed as u64);
    }
    if let Some(b) = plan.base_desc.split("+bug:").nth(1) {
        let name = b.split(|c| c == ' ' || c == '@').next().unwrap_or("?");
        agg.inc(&format!("fault-fired:producer-bug:{}", name), 1);
    }
    if plan.base_desc.starts_with("corpus:") {
        agg.inc("base:corpus", 1);
    } else {
        agg.inc("base:generated", 1);
    }
    if changed && f.loaded {
        agg.inc("probe:faulted-file-loaded", 1);
    }
    if let Some(rs) = &f.reader {
        agg.inc("reader:calls", rs.calls);
        agg.inc("reader:short-reads", rs.short);
        agg.inc("reader:eintr", rs.eintr);
        agg.inc("reader:vectored-calls", rs.vectored_calls);
        agg.inc("reader:hard-errors", rs.errors);
        agg.inc("reader:zero-at-eof", rs.zero_eof);
        agg.inc("reader:bytes-delivered", rs.delivered);
        agg.inc("probe:primitive-split-across-reads", (rs.split_primitive > 0) as u64);
        agg.inc(&format!("wrapper:{}", plan.wrapper.kind()), 1);
    } else {
        agg.inc(&format!("wrapper:{}", plan.wrapper.kind()), 1);
    }
    agg.inc("ops:done", f.ops_done);
    agg.inc("ops:skipped-too-costly", f.ops_skipped);
    agg.inc("sched:steps", f.sched_steps);
    for (k, n) in &f.op_counts {
        agg.inc(&format!("op:{}", k), *n);
    }
    agg.maxi("alloc-peak", f.alloc_peak);
    agg.maxi("alloc-largest-request", f.alloc_largest);

    // --- distinct / non-trivial by property
    let mut key = Digest::new();
    let mut nontrivial = false;
    let mut keys: Vec<u64> = Vec::new();
    match plan.mode.as_str() {
        "load" | "use" => {
            // cell = (fault description class) x outcome class
            for e in &plan.edits {
                let cls: String = match &job.kind {
                    JobKind::Cells { cells, pairs, fields, .. } => {
                        let (fi, v) = if (sub as usize) < cells.len() {
                            cells[sub as usize]
                        } else {
                            agg.inc("cell-pairs", 1);
                            let (pr, _) = pairs[sub as usize - cells.len()];
                            if e.off == fields[pr[0].0].off { pr[0] } else { pr[1] }
                        };
                        let fd = &fields[fi];
                        agg.inc(&format!("cell:{}.{}:{}", fd.chunk, fd.name, fd.kind.name()), 1);
                        format!("{}.{}:{}", fd.chunk, fd.name, value_class(fd.width, v))
                    }
                    _ => {
                        let m = crate::format::walk(&plan.base);
                        let kind = e.label.split(|c| c == ' ' || c == ':').next().unwrap_or("?");
                        if kind == "field" {
                            let fname = e.label.split(' ').nth(1).unwrap_or("?");
                            let fname = fname.split('@').next().unwrap_or("?");
                            let v = crate::format::get(&e.ins, 0, e.ins.len().min(8));
                            format!("{}:{}", fname, value_class(e.ins.len().clamp(1, 4), v))
                        } else {
                            let pc = props::position_class(&m, e.off);
                            agg.inc(&format!("probe:fault-in:{}", pc), 1);
                            format!("{}:{}", kind, pc)
                        }
                    }
                };
                key.str(&cls);
            }
            if plan.edits.is_empty() {
                key.str(&plan.base_desc);
            }
            key.str(&f.outcome);
            let past_header = image.len() >= 128 && image[4] == 0xE0 && image[5] == 0xA5;
            if plan.mode == "load" {
                nontrivial = (changed || plan.base_desc.contains("+bug:")) && past_header;
                keys.push(key.finish());
            } else {
                nontrivial = f.loaded && (changed || plan.base_desc.contains("+bug:") || plan.base_desc.starts_with("gen:"));
                if f.loaded {
                    keys.push(key.finish());
                    keys.extend_from_slice(&f.distinct);
                }
            }
        }
        "mem" => {
            for e in &plan.edits {
                key.str(&e.label);
            }
            key.str(&plan.base_desc);
            let delivered = f.reader.as_ref().map(|r| r.delivered).unwrap_or(0);
            let parsed = plan.edits.iter().all(|e| delivered as usize > e.off);
            nontrivial = parsed && (changed || plan.base_desc.contains("+bug:"));
            keys.push(key.finish());
        }
        "trunc" => {
            key.str(&plan.base_desc);
            let cut = plan.edits.first().map(|e| e.off).unwrap_or(0);
            key.u64(cut as u64);
            key.str(plan.wrapper.kind());
            nontrivial = cut >= 128;
            keys.push(key.finish());
            if let JobKind::Cuts { base, .. } = &job.kind {
                let cls = if props::is_boundary(&base.map, cut) {
                    "cut-class:on-boundary".to_string()
                } else {
                    format!("cut-class:{}", props::position_class(&base.map, cut))
                };
                agg.inc(&cls, 1);
            }
        }
        "reader" => {
            if let Some(rs) = &f.reader {
                key.u64(rs.trace);
                nontrivial = rs.short + rs.eintr + rs.errors > 0;
                if let Some((at, k, _)) = plan.reader.error {
                    if rs.errors > 0 {
                        let m = crate::format::walk(&plan.base);
                        let cls = if props::is_boundary(&m, at as usize) {
                            "on-boundary".to_string()
                        } else {
                            props::position_class(&m, at as usize)
                        };
                        agg.inc(&format!("probe:hard-error-in:{}", cls), 1);
                        agg.inc(&format!("fault-fired:hard-error:{}", k.name()), 1);
                    }
                }
                if rs.eintr > 0 {
                    agg.inc("fault-fired:eintr", 1);
                }
                if rs.short > 0 {
                    agg.inc("fault-fired:short-read", 1);
                }
                if let crate::plan::Wrapper::BufSim(c) = plan.wrapper {
                    if c < 4 {
                        agg.inc("probe:bufreader-smaller-than-a-primitive", 1);
                    }
                }
            } else {
                key.str(plan.wrapper.kind());
                key.bytes(image);
            }
            keys.push(key.finish());
        }
        "threads" => {
            keys.extend_from_slice(&f.distinct);
            nontrivial = f.nontrivial;
            if plan.threads >= 2 {
                agg.inc(&format!("sched-policy:{}", plan.sched_policy), 1);
                agg.inc(&format!("threads:{}", plan.threads), 1);
            } else {
                agg.inc("threads:1 (histories only)", 1);
            }
        }
        _ => {}
    }
    agg.inc("nontrivial-runs", nontrivial as u64);
    if nontrivial {
        agg.distinct.extend(keys);
    }
    if agg.samples.len() < 2 && (nontrivial || agg.evals > 32) {
        agg.samples.push(plan_sample(plan, rep));
    }
}

pub struct WorkerArgs {
    pub prop: String,
    pub tier: Tier,
    pub seed: u64,
    pub k: u64,
    pub w: u64,
    pub resume: Option<(u64, u64)>,
    pub replay_dir: String,
    pub dump: Option<String>,
    pub only_job: Option<u64>,
}

pub fn run_worker(a: WorkerArgs) {
    exec::install_panic_hook();
    let _ = exec::LOAD_DONE_HOOK.set(load_done);
    let ctx = Ctx::new(a.seed, a.tier);
    let njobs = props::num_jobs(&ctx, &a.prop);
    let mut dump = a.dump.as_ref().map(|p| {
        std::fs::OpenOptions::new()
            .create(true)
            .append(true)
            .open(format!("{}.{}", p, a.k))
            .expect("dump file")
    });
    let mut violations_written = 0u64;
    let (rj, rs) = a.resume.unwrap_or((0, 0));
    for job_id in 0..njobs {
        if job_id % a.w != a.k || job_id < rj {
            continue;
        }
        if let Some(o) = a.only_job {
            if o != job_id {
                continue;
            }
        }
        let job = props::make_job(&ctx, &a.prop, job_id);
        let start = if a.resume.is_some() && job_id == rj { rs } else { 0 };
        let mut agg = Agg::default();
        if let JobKind::Empty { why } = &job.kind {
            agg.inc(&format!("job-empty:{}", why.chars().take(60).collect::<String>()), 1);
        }
        let ctxr = &ctx;
        let jobr = &job;
        let aggr = &mut agg;
        let dumpr = &mut dump;
        let vw = &mut violations_written;
        let replay_dir = a.replay_dir.clone();
        // each job on a fresh thread with the "ordinary" 2 MiB stack
        std::thread::scope(|s| {
            std::thread::Builder::new()
                .stack_size(exec::STACK)
                .name("job".into())
                .spawn_scoped(s, move || {
                    let mut recent: std::collections::VecDeque<Plan> = Default::default();
                    for sub in start..jobr.len() {
                        CUR.with(|c| c.set((jobr.id, sub)));
                        emit(&format!("B {} {}", jobr.id, sub));
                        let plan = jobr.plan(ctxr, sub);
                        let image = plan.image();
                        let mut rep = exec::run_plan_inline(&plan, false);
                        let mut history: Vec<Plan> = Vec::new();
                        if let Some(v) = &rep.violation {
                            // Does it reproduce on a fresh thread, without what earlier runs may have
                            // left behind on this one? If not, the history is part of the replay.
                            let sig = v.signature();
                            let alone = exec::run_plan(&plan, false);
                            let same = alone.violation.as_ref().map(|x| x.signature() == sig).unwrap_or(false);
                            if !same {
                                // try growing suffixes of this thread's history: 2, 16, all (<= 256)
                                let mut found = false;
                                for take in [2usize, 16, 256] {
                                    let mut with_hist = plan.clone();
                                    let skip = recent.len().saturating_sub(take);
                                    with_hist.prelude = recent.iter().skip(skip).cloned().collect();
                                    let again = exec::run_plan(&with_hist, false);
                                    if again.violation.as_ref().map(|x| x.signature() == sig).unwrap_or(false) {
                                        history = with_hist.prelude;
                                        aggr.inc("probe:violation-needs-history-of-earlier-loads", 1);
                                        found = true;
                                        break;
                                    }
                                    if recent.len() <= take {
                                        break;
                                    }
                                }
                                if !found {
                                    if alone.violation.is_some() {
                                        rep = alone; // a different but isolated violation: report that one
                                    } else {
                                        history = recent.iter().cloned().collect();
                                        aggr.inc("probe:violation-not-reproduced-on-a-fresh-thread", 1);
                                    }
                                }
                            }
                        }
                        account(aggr, jobr, sub, &plan, &image, &rep);
                        if let Some(d) = dumpr.as_mut() {
                            let _ = writeln!(d, "{} {} {:016x}", jobr.id, sub, rep.facts.digest);
                        }
                        if let Some(v) = &rep.violation {
                            aggr.inc("violations", 1);
                            *vw += 1;
                            if *vw <= 40 {
                                let mut plan = plan.clone();
                                plan.prelude = history;
                                // make the replay explicit
                                if let Some(op) = &rep.facts.sample {
                                    if plan.mode == "use" {
                                        if let Some(o) = crate::observe::Op::from_json(op) {
                                            plan.workload = Workload::Explicit(vec![o]);
                                        }
                                    }
                                }
                                if let Some(ops) = &rep.facts.mat_ops {
                                    plan.workload = Workload::Explicit(ops.clone());
                                }
                                if let Some(sc) = &rep.facts.mat_schedule {
                                    plan.schedule = sc.clone();
                                }
                                let path = format!("{}/{}-s{}-j{}-r{}.json", replay_dir, plan.property, ctxr.seed, jobr.id, sub);
                                let mut j = plan.to_json();
                                j["expected"] = v.to_json();
                                let _ = std::fs::create_dir_all(&replay_dir);
                                let _ = std::fs::write(&path, serde_json::to_string_pretty(&j).unwrap());
                                emit(&format!("V {}", json!({"job": jobr.id, "sub": sub, "violation": v.to_json(), "replay": path})));
                            }
                        }
                        // kept (by move, no copy) as possible history of later runs on this thread
                        if matches!(plan.mode.as_str(), "reader" | "load" | "use" | "mem" | "threads" | "trunc") && plan.base.len() <= 1 << 20 {
                            if recent.len() >= 256 {
                                recent.pop_front();
                            }
                            recent.push_back(plan);
                        }
                    }
                })
                .expect("spawn job thread")
                .join()
                .expect("job thread panicked (harness bug)");
        });
        emit(&format!("S {}", agg.to_json()));
    }
    exec::cleanup_tmp();
    emit("D");
}
