//! A `Plan` is one fully explicit simulated run: base bytes, storage faults (as byte edits on the
//! simulated disk), reader schedule, client workload, thread schedule. It is what a replay file
//! contains; executing it is a pure function of the plan and the code under test.

use crate::observe::Op;
use crate::simreader::{ErrKind, ReaderPlan};
use serde_json::{json, Value};

#[derive(Clone, Debug, PartialEq)]
pub struct Edit {
    pub label: String, // fault kind + human description
    pub off: usize,
    pub del: usize,
    pub ins: Vec<u8>,
}

#[derive(Clone, Copy, Debug, PartialEq, Eq)]
pub enum Wrapper {
    Slice,          // &[u8] (fault-free reference reader)
    Sim,            // SimReader directly
    BufSim(usize),  // BufReader::with_capacity(cap, SimReader)
    ChainSim(usize),// SimReader(first half).chain(SimReader(second half))
    TakeSim,        // SimReader.take(len)
    Cursor,         // io::Cursor<Vec<u8>>
    File,           // bare unbuffered std::fs::File on a real temp file
    ReadFile,       // AsepriteFile::read_file on a real temp file
    Fifo,           // AsepriteFile::read_file on a named pipe fed in pieces by a writer thread
}

impl Wrapper {
    pub fn name(self) -> String {
        match self {
            Wrapper::Slice => "slice".into(),
            Wrapper::Sim => "sim".into(),
            Wrapper::BufSim(c) => format!("bufsim:{}", c),
            Wrapper::ChainSim(c) => format!("chainsim:{}", c),
            Wrapper::TakeSim => "takesim".into(),
            Wrapper::Cursor => "cursor".into(),
            Wrapper::File => "file".into(),
            Wrapper::ReadFile => "read_file".into(),
            Wrapper::Fifo => "fifo".into(),
        }
    }
    pub fn kind(self) -> &'static str {
        match self {
            Wrapper::Slice => "slice",
            Wrapper::Sim => "sim",
            Wrapper::BufSim(_) => "bufsim",
            Wrapper::ChainSim(_) => "chainsim",
            Wrapper::TakeSim => "takesim",
            Wrapper::Cursor => "cursor",
            Wrapper::File => "file",
            Wrapper::ReadFile => "read_file",
            Wrapper::Fifo => "fifo",
        }
    }
    pub fn parse(s: &str) -> Option<Wrapper> {
        let (k, a) = match s.split_once(':') {
            Some((k, a)) => (k, a.parse::<usize>().ok()?),
            None => (s, 0),
        };
        Some(match k {
            "slice" => Wrapper::Slice,
            "sim" => Wrapper::Sim,
            "bufsim" => Wrapper::BufSim(a),
            "chainsim" => Wrapper::ChainSim(a),
            "takesim" => Wrapper::TakeSim,
            "cursor" => Wrapper::Cursor,
            "file" => Wrapper::File,
            "read_file" => Wrapper::ReadFile,
            "fifo" => Wrapper::Fifo,
            _ => return None,
        })
    }
    pub fn uses_sim(self) -> bool {
        matches!(self, Wrapper::Sim | Wrapper::BufSim(_) | Wrapper::ChainSim(_) | Wrapper::TakeSim)
    }
}

#[derive(Clone, Debug, PartialEq)]
pub enum Workload {
    None,
    /// full observation sweep + random history drawn from this seed after the load succeeded
    Auto(u64),
    Explicit(Vec<Op>),
}

#[derive(Clone, Debug)]
pub struct Plan {
    pub property: String,
    /// what the run does and which oracle applies:
    /// load | use | mem | trunc | reader | threads
    pub mode: String,
    pub seed: u64,
    pub run: u64,
    pub base_desc: String,
    pub base: Vec<u8>,
    pub edits: Vec<Edit>,
    pub wrapper: Wrapper,
    pub reader: ReaderPlan,
    pub workload: Workload,
    pub threads: usize,
    pub schedule: Vec<u8>,
    pub sched_policy: String,
    /// bytes of the reference load (C14: X must be < this for the hard-error oracle)
    pub note: String,
    /// History: plans executed before this one on the same thread of the same process (state
    /// that leaks from one load into the next is part of the replay).
    pub prelude: Vec<Plan>,
    /// configuration: the host application's `log` level was Trace
    pub log_trace: bool,
}

pub fn hex(b: &[u8]) -> String {
    const H: &[u8; 16] = b"0123456789abcdef";
    let mut s = String::with_capacity(b.len() * 2);
    for x in b {
        s.push(H[(x >> 4) as usize] as char);
        s.push(H[(x & 15) as usize] as char);
    }
    s
}

pub fn unhex(s: &str) -> Option<Vec<u8>> {
    let s = s.as_bytes();
    if s.len() % 2 != 0 {
        return None;
    }
    let v = |c: u8| -> Option<u8> {
        match c {
            b'0'..=b'9' => Some(c - b'0'),
            b'a'..=b'f' => Some(c - b'a' + 10),
            b'A'..=b'F' => Some(c - b'A' + 10),
            _ => None,
        }
    };
    let mut out = Vec::with_capacity(s.len() / 2);
    for p in s.chunks(2) {
        out.push(v(p[0])? << 4 | v(p[1])?);
    }
    Some(out)
}

impl Plan {
    pub fn new(property: &str, mode: &str, seed: u64, run: u64) -> Plan {
        Plan {
            property: property.into(),
            mode: mode.into(),
            seed,
            run,
            base_desc: String::new(),
            base: Vec::new(),
            edits: Vec::new(),
            wrapper: Wrapper::Slice,
            reader: ReaderPlan::default(),
            workload: Workload::None,
            threads: 0,
            schedule: Vec::new(),
            sched_policy: String::new(),
            note: String::new(),
            prelude: Vec::new(),
            log_trace: std::env::var("ASESIM_LOG").map(|v| v == "trace").unwrap_or(false),
        }
    }

    /// The simulated disk image after all storage faults.
    pub fn image(&self) -> Vec<u8> {
        let mut b = self.base.clone();
        for e in &self.edits {
            let off = e.off.min(b.len());
            let end = off.saturating_add(e.del).min(b.len());
            b.splice(off..end, e.ins.iter().copied());
        }
        b
    }

    pub fn to_json(&self) -> Value {
        let edits: Vec<Value> = self
            .edits
            .iter()
            .map(|e| json!({"label": e.label, "off": e.off, "del": e.del, "ins": hex(&e.ins)}))
            .collect();
        let workload = match &self.workload {
            Workload::None => json!(null),
            Workload::Auto(s) => json!({"auto": s.to_string()}),
            Workload::Explicit(ops) => json!(ops.iter().map(|o| o.to_json()).collect::<Vec<_>>()),
        };
        json!({
            "format": "asesim-replay-1",
            "property": self.property,
            "mode": self.mode,
            "seed": self.seed.to_string(),
            "run": self.run,
            "base_desc": self.base_desc,
            "base_hex": hex(&self.base),
            "faults": edits,
            "reader": {
                "wrapper": self.wrapper.name(),
                "sizes": self.reader.sizes,
                "eintr": self.reader.eintr.iter().map(|(o, t)| json!([o, t])).collect::<Vec<_>>(),
                "error": self.reader.error.map(|(at, k, s)| json!({"at": at, "kind": k.name(), "sticky": s})),
                "vectored": self.reader.vectored,
            },
            "workload": workload,
            "threads": self.threads,
            "schedule": self.schedule,
            "sched_policy": self.sched_policy,
            "note": self.note,
            "log_trace": self.log_trace,
            "history_before": self.prelude.iter().map(|p| p.to_json()).collect::<Vec<_>>(),
        })
    }

    pub fn from_json(v: &Value) -> Result<Plan, String> {
        let s = |k: &str| -> Result<String, String> {
            v.get(k)
                .and_then(|x| x.as_str())
                .map(|x| x.to_string())
                .ok_or_else(|| format!("missing {}", k))
        };
        let mut p = Plan::new(&s("property")?, &s("mode")?, 0, 0);
        p.seed = s("seed")?.parse().map_err(|_| "bad seed")?;
        p.run = v.get("run").and_then(|x| x.as_u64()).unwrap_or(0);
        p.base_desc = s("base_desc").unwrap_or_default();
        p.base = unhex(&s("base_hex")?).ok_or("bad base_hex")?;
        if let Some(a) = v.get("faults").and_then(|x| x.as_array()) {
            for e in a {
                p.edits.push(Edit {
                    label: e.get("label").and_then(|x| x.as_str()).unwrap_or("").to_string(),
                    off: e.get("off").and_then(|x| x.as_u64()).ok_or("edit.off")? as usize,
                    del: e.get("del").and_then(|x| x.as_u64()).ok_or("edit.del")? as usize,
                    ins: unhex(e.get("ins").and_then(|x| x.as_str()).unwrap_or("")).ok_or("edit.ins")?,
                });
            }
        }
        if let Some(r) = v.get("reader") {
            p.wrapper = Wrapper::parse(r.get("wrapper").and_then(|x| x.as_str()).unwrap_or("slice"))
                .ok_or("bad wrapper")?;
            if let Some(a) = r.get("sizes").and_then(|x| x.as_array()) {
                p.reader.sizes = a.iter().filter_map(|x| x.as_u64()).map(|x| x as u32).collect();
            }
            if let Some(a) = r.get("eintr").and_then(|x| x.as_array()) {
                for e in a {
                    let o = e.get(0).and_then(|x| x.as_u64()).ok_or("eintr")?;
                    let t = e.get(1).and_then(|x| x.as_u64()).ok_or("eintr")?;
                    p.reader.eintr.push((o, t as u32));
                }
            }
            p.reader.vectored = r.get("vectored").and_then(|x| x.as_bool()).unwrap_or(false);
            if let Some(e) = r.get("error") {
                if !e.is_null() {
                    let at = e.get("at").and_then(|x| x.as_u64()).ok_or("error.at")?;
                    let k = ErrKind::parse(e.get("kind").and_then(|x| x.as_str()).unwrap_or(""))
                        .ok_or("error.kind")?;
                    let st = e.get("sticky").and_then(|x| x.as_bool()).unwrap_or(false);
                    p.reader.error = Some((at, k, st));
                }
            }
        }
        p.workload = match v.get("workload") {
            None | Some(Value::Null) => Workload::None,
            Some(Value::Array(a)) => {
                Workload::Explicit(a.iter().map(|o| Op::from_json(o).ok_or("bad op")).collect::<Result<_, _>>()?)
            }
            Some(o) => Workload::Auto(
                o.get("auto")
                    .and_then(|x| x.as_str())
                    .and_then(|x| x.parse().ok())
                    .ok_or("bad workload")?,
            ),
        };
        p.threads = v.get("threads").and_then(|x| x.as_u64()).unwrap_or(0) as usize;
        if let Some(a) = v.get("schedule").and_then(|x| x.as_array()) {
            p.schedule = a.iter().filter_map(|x| x.as_u64()).map(|x| x as u8).collect();
        }
        p.sched_policy = s("sched_policy").unwrap_or_default();
        p.note = s("note").unwrap_or_default();
        p.log_trace = v.get("log_trace").and_then(|x| x.as_bool()).unwrap_or(false);
        if let Some(a) = v.get("history_before").and_then(|x| x.as_array()) {
            for h in a {
                p.prelude.push(Plan::from_json(h)?);
            }
        }
        Ok(p)
    }
}

/// What went wrong, in a form that is stable across runs and seeds (numbers normalised), so
/// that known findings can be keyed on it and a *different* violation is still reported.
#[derive(Clone, Debug, PartialEq)]
pub struct Violation {
    pub property: String,
    pub kind: String,  // panic | abort | stack-overflow | hang | loaded-truncated | ...
    pub stage: String, // "load" or op name
    pub site: String,  // panic file:line / allocation note
    pub msg: String,   // normalised message
    pub detail: String, // raw message (not part of the signature)
}

impl Violation {
    pub fn signature(&self) -> String {
        format!("{}|{}|{}|{}|{}", self.property, self.kind, self.stage, self.site, self.msg)
    }
    pub fn to_json(&self) -> Value {
        json!({"property": self.property, "kind": self.kind, "stage": self.stage, "site": self.site,
               "msg": self.msg, "detail": self.detail, "signature": self.signature()})
    }
}

/// Replace digit runs by N so that messages differing only in numbers share a template.
pub fn normalise(msg: &str) -> String {
    let mut out = String::with_capacity(msg.len());
    let mut in_num = false;
    for c in msg.chars() {
        if c.is_ascii_digit() {
            if !in_num {
                out.push('N');
                in_num = true;
            }
        } else {
            in_num = false;
            out.push(c);
        }
    }
    if out.len() > 160 {
        let mut cut = 160;
        while !out.is_char_boundary(cut) {
            cut -= 1;
        }
        out.truncate(cut);
    }
    out
}
