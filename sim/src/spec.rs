//! Producer stub: a model of "some program that writes .aseprite files". A `SpriteSpec` is drawn
//! swarm-style (each run enables a random subset of features and sizes) and encoded under
//! per-site encoding coins. `Bug` is the catalogue of producer bugs (spec-level faults): each
//! makes the written file internally inconsistent in one specific way.

use crate::rng::Rng;
use flate2::write::ZlibEncoder;
use flate2::Compression;
use std::io::Write;

#[derive(Clone, Copy, Debug, PartialEq, Eq)]
pub enum Fmt {
    Rgba,
    Gray,
    Indexed,
}

impl Fmt {
    pub fn bpp(self) -> usize {
        match self {
            Fmt::Rgba => 4,
            Fmt::Gray => 2,
            Fmt::Indexed => 1,
        }
    }
    pub fn depth(self) -> u16 {
        (self.bpp() * 8) as u16
    }
}

#[derive(Clone, Debug)]
pub struct UserData {
    pub text: Option<String>,
    pub color: Option<[u8; 4]>,
    /// Aseprite 1.3 "properties" (flag 4): size-prefixed maps that readers may skip
    pub props: Option<Vec<u8>>,
}

#[derive(Clone, Debug)]
pub struct LayerSpec {
    pub flags: u16,
    pub kind: u16, // 0 image, 1 group, 2 tilemap
    pub tileset: u32,
    pub level: u16,
    pub blend: u16,
    pub opacity: u8,
    pub name: String,
    pub ud: Option<UserData>,
}

#[derive(Clone, Debug)]
pub enum CelBody {
    Raw {
        w: u16,
        h: u16,
        pixels: Vec<u8>,
        compressed: bool,
        level: u32,
    },
    Linked(u16),
    Tilemap {
        w: u16,
        h: u16,
        bits: u16,
        masks: [u32; 4],
        tiles: Vec<u32>,
        level: u32,
    },
    /// Pre-encoded body after the 16-byte common part (used by producer bugs).
    Opaque { cel_type: u16, body: Vec<u8> },
}

#[derive(Clone, Debug)]
pub struct CelSpec {
    pub frame: u16,
    pub layer: u16,
    pub x: i16,
    pub y: i16,
    pub opacity: u8,
    pub body: CelBody,
    pub ud: Option<UserData>,
    pub extra: bool,
}

#[derive(Clone, Debug)]
pub struct TilesetSpec {
    pub id: u32,
    pub flags: u32,
    pub count: u32,
    pub tw: u16,
    pub th: u16,
    pub base_index: i16,
    pub name: String,
    pub pixels: Vec<u8>,
    pub level: u32,
    pub ext: (u32, u32),
}

#[derive(Clone, Debug)]
pub struct TagSpec {
    pub from: u16,
    pub to: u16,
    pub dir: u8,
    pub repeat: u16,
    pub name: String,
    pub ud: Option<UserData>,
}

#[derive(Clone, Debug)]
pub struct SliceKeySpec {
    pub frame: u32,
    pub x: i32,
    pub y: i32,
    pub w: u32,
    pub h: u32,
    pub nine: [u32; 4],
    pub pivot: [i32; 2],
}

#[derive(Clone, Debug)]
pub struct SliceSpec {
    pub name: String,
    pub flags: u32,
    pub keys: Vec<SliceKeySpec>,
    pub ud: Option<UserData>,
}

#[derive(Clone, Debug)]
pub struct PaletteSpec {
    pub first: u32,
    pub entries: Vec<([u8; 4], Option<String>)>,
}

#[derive(Clone, Debug)]
pub struct SpriteSpec {
    pub width: u16,
    pub height: u16,
    pub fmt: Fmt,
    pub transparent: u8,
    pub durations: Vec<u16>,
    pub layers: Vec<LayerSpec>,
    pub palette: Option<PaletteSpec>,
    /// legacy palette chunk type (0x0004 / 0x0011) and its packets (skip, colours)
    pub legacy: Option<(u16, Vec<(u8, Vec<[u8; 3]>)>)>,
    pub tilesets: Vec<TilesetSpec>,
    pub cels: Vec<CelSpec>,
    pub tags: Vec<TagSpec>,
    pub tag_ud_count: usize,
    pub slices: Vec<SliceSpec>,
    pub ext_files: Vec<(u32, u8, String)>,
    pub color_profile: Option<u16>,
    pub sprite_ud: Option<UserData>,
    pub header_frames_override: Option<u16>,
}

const NAMES: &[&str] = &[
    "", "Layer 1", "bg", "Group", "tiles", "a", "名前", "ünï", "x y", "Layer 1", "walk", "idle",
    "🙂", "long-name-long-name-long-name", "0",
];

fn name(r: &mut Rng) -> String {
    match r.below(12) {
        0 => {
            let n = r.usize_below(40);
            (0..n).map(|_| (b'a' + r.below(26) as u8) as char).collect()
        }
        1 | 2 => {
            // strings of every UTF-8 width at every alignment, up to ~120 bytes
            const ALPHABET: &[char] = &['a', 'Z', '0', ' ', 'é', 'ß', 'Ж', '名', '前', '€', '🙂', '𝄞', '\u{7f}', '\u{a0}', '\u{fffd}'];
            let n = r.usize_below(48);
            let mono = r.chance(1, 3);
            let c0 = *r.pick(ALPHABET);
            (0..n).map(|_| if mono { c0 } else { *r.pick(ALPHABET) }).collect()
        }
        _ => (*r.pick(NAMES)).to_string(),
    }
}

fn user_data(r: &mut Rng, on: bool) -> Option<UserData> {
    if !on || !r.chance(1, 3) {
        return None;
    }
    let k = r.below(4);
    Some(UserData {
        text: if k & 1 != 0 { Some(name(r)) } else { None },
        color: if k & 2 != 0 {
            Some([r.byte(), r.byte(), r.byte(), r.byte()])
        } else {
            None
        },
        props: if r.chance(1, 4) {
            // one map (key 0) with `n` (name, type 0x0005 = int32, value) properties
            let n = r.below(4) as u32;
            let mut m = Vec::new();
            m.extend_from_slice(&1u32.to_le_bytes()); // number of maps
            m.extend_from_slice(&0u32.to_le_bytes()); // map key
            m.extend_from_slice(&n.to_le_bytes());
            for i in 0..n {
                let nm = format!("p{}", i);
                m.extend_from_slice(&(nm.len() as u16).to_le_bytes());
                m.extend_from_slice(nm.as_bytes());
                m.extend_from_slice(&5u16.to_le_bytes());
                m.extend_from_slice(&(r.next() as u32).to_le_bytes());
            }
            let mut blob = Vec::new();
            blob.extend_from_slice(&((m.len() + 4) as u32).to_le_bytes());
            blob.extend_from_slice(&m);
            Some(blob)
        } else {
            None
        },
    })
}

fn small(r: &mut Rng, typical: u64, rare: u64) -> u64 {
    if r.chance(1, 9) {
        1 + r.below(rare)
    } else {
        1 + r.below(typical)
    }
}

/// Levels >= 100 select hand-assembled *stored* deflate blocks (no compressor runs; used under
/// Miri where the interpreter would spend its time in the deflate encoder).
pub fn zlib(data: &[u8], level: u32) -> Vec<u8> {
    if level >= 100 {
        return zlib_stored(data);
    }
    let mut e = ZlibEncoder::new(Vec::new(), Compression::new(level.min(9)));
    e.write_all(data).unwrap();
    e.finish().unwrap()
}

pub fn zlib_stored(data: &[u8]) -> Vec<u8> {
    zlib_stored_blocks(data, 65535).0
}

/// Stored-block zlib stream with a chosen block size; also returns the offsets (in the stream)
/// at which each block starts, so that a stream can be cut exactly between two blocks.
pub fn zlib_stored_blocks(data: &[u8], block: usize) -> (Vec<u8>, Vec<usize>) {
    let mut starts = Vec::new();
    let mut out = vec![0x78, 0x01];
    let mut chunks: Vec<&[u8]> = data.chunks(block.clamp(1, 65535)).collect();
    if chunks.is_empty() {
        chunks.push(&[]);
    }
    let n = chunks.len();
    for (i, c) in chunks.iter().enumerate() {
        starts.push(out.len());
        out.push(if i + 1 == n { 1 } else { 0 });
        let len = c.len() as u16;
        out.extend_from_slice(&len.to_le_bytes());
        out.extend_from_slice(&(!len).to_le_bytes());
        out.extend_from_slice(c);
    }
    let (mut a, mut b) = (1u32, 0u32);
    for x in data {
        a = (a + *x as u32) % 65521;
        b = (b + a) % 65521;
    }
    out.extend_from_slice(&((b << 16) | a).to_be_bytes());
    (out, starts)
}

/// A tiny well-formed sprite for interpreter (Miri) runs: canvas <= 6x6, <= 3 layers, <= 2
/// frames, raw or stored-deflate cels, optional tilemap.
pub fn gen_tiny_spec(r: &mut Rng) -> SpriteSpec {
    let fmt = *r.pick(&[Fmt::Rgba, Fmt::Gray, Fmt::Indexed]);
    let (w, h) = (1 + r.below(5) as u16, 1 + r.below(5) as u16);
    // a quarter of the tiny sprites have 10 frames (caches with a handful of slots start evicting)
    let nframes = if r.chance(1, 4) { 10 } else { 1 + r.usize_below(2) };
    let mut s = SpriteSpec {
        width: w,
        height: h,
        fmt,
        transparent: 0,
        durations: vec![100; nframes],
        layers: Vec::new(),
        palette: Some(PaletteSpec {
            first: 0,
            entries: (0..4).map(|i| ([i * 60, 255 - i * 60, i, 255], None)).collect(),
        }),
        legacy: None,
        tilesets: Vec::new(),
        cels: Vec::new(),
        tags: vec![TagSpec {
            from: 0,
            to: 0,
            dir: 0,
            repeat: 0,
            name: "t".into(),
            ud: None,
        }],
        tag_ud_count: 0,
        slices: Vec::new(),
        ext_files: vec![(1, 0, "e".into())],
        color_profile: None,
        sprite_ud: None,
        header_frames_override: None,
    };
    let dom = [0u8, 1, 2, 3];
    let with_tilemap = r.chance(1, 2);
    if with_tilemap {
        s.tilesets.push(TilesetSpec {
            id: 0,
            flags: 6,
            count: 2,
            tw: 2,
            th: 2,
            base_index: 1,
            name: "ts".into(),
            pixels: pixels(r, fmt, 8, &dom),
            level: 100,
            ext: (0, 0),
        });
    }
    // half of the tilemap sprites get a second tileset of exactly the same shape, used by a
    // second tilemap layer
    let two_ts = with_tilemap && r.chance(1, 2);
    if two_ts {
        s.tilesets.push(TilesetSpec {
            id: 1,
            flags: 6,
            count: 2,
            tw: 2,
            th: 2,
            base_index: 1,
            name: "ts2".into(),
            pixels: pixels(r, fmt, 8, &dom),
            level: 100,
            ext: (0, 0),
        });
    }
    let nl = if two_ts { 2 + r.usize_below(2) } else { 1 + r.usize_below(3) };
    for i in 0..nl {
        let kind = if with_tilemap && (i == nl - 1 || (two_ts && i == nl - 2)) { 2 } else if i == 0 && nl == 3 && !two_ts { 1 } else { 0 };
        s.layers.push(LayerSpec {
            flags: 1,
            kind,
            tileset: if two_ts && i == nl - 2 { 1 } else { 0 },
            level: if i > 0 && s.layers[0].kind == 1 { 1 } else { 0 },
            blend: r.below(19) as u16,
            opacity: if r.chance(1, 2) { 255 } else { r.byte() },
            name: format!("L{}", i),
            ud: None,
        });
        for f in 0..nframes {
            if kind == 1 {
                continue;
            }
            let body = if kind == 2 {
                CelBody::Tilemap {
                    w: 2,
                    h: 1,
                    bits: 32,
                    masks: [0x1fff_ffff, 0x8000_0000, 0x4000_0000, 0x2000_0000],
                    tiles: vec![1, 0],
                    level: 100,
                }
            } else if f == 1 && r.chance(1, 2) {
                CelBody::Linked(0)
            } else {
                let (cw, ch) = (1 + r.below(3) as u16, 1 + r.below(3) as u16);
                CelBody::Raw {
                    w: cw,
                    h: ch,
                    pixels: pixels(r, fmt, cw as usize * ch as usize, &dom),
                    compressed: r.chance(1, 2),
                    level: 100,
                }
            };
            s.cels.push(CelSpec {
                frame: f as u16,
                layer: i as u16,
                x: r.range(-1, 2) as i16,
                y: r.range(-1, 2) as i16,
                opacity: 200,
                body,
                ud: None,
                extra: false,
            });
        }
    }
    // a linked cel needs its target to be a raw cel in frame 0 of the same layer
    let raw0: Vec<u16> = s
        .cels
        .iter()
        .filter(|c| c.frame == 0 && matches!(c.body, CelBody::Raw { .. }))
        .map(|c| c.layer)
        .collect();
    s.cels.retain(|c| !matches!(c.body, CelBody::Linked(_)) || raw0.contains(&c.layer));
    s
}

/// Which colour indices an indexed sprite may use.
fn index_domain(s: &SpriteSpec) -> Vec<u8> {
    let mut v = Vec::new();
    if let Some(p) = &s.palette {
        for i in 0..p.entries.len() as u32 {
            let idx = p.first + i;
            if idx < 256 {
                v.push(idx as u8);
            }
        }
    } else if let Some((_, packets)) = &s.legacy {
        // single-packet legacy palettes only are generated for indexed sprites
        if let Some((skip, cols)) = packets.first() {
            for i in 0..cols.len() as u32 {
                let idx = *skip as u32 + i;
                if idx < 256 {
                    v.push(idx as u8);
                }
            }
        }
    }
    v
}

fn pixels(r: &mut Rng, fmt: Fmt, n: usize, dom: &[u8]) -> Vec<u8> {
    match fmt {
        Fmt::Indexed => (0..n).map(|_| *r.pick(dom)).collect(),
        _ => {
            // mostly structured (compressible), sometimes noise
            let bpp = fmt.bpp();
            if r.chance(1, 3) {
                r.bytes(n * bpp)
            } else {
                let a = r.bytes(bpp);
                let b = r.bytes(bpp);
                let mut v = Vec::with_capacity(n * bpp);
                for i in 0..n {
                    v.extend_from_slice(if (i / 3) % 2 == 0 { &a } else { &b });
                }
                v
            }
        }
    }
}

/// Draw a well-formed sprite. `scale` > 0 widens the rare-size tails.
pub fn gen_spec(r: &mut Rng) -> SpriteSpec {
    // swarm: feature subset for this run
    let f_groups = r.chance(1, 2);
    let f_tilemaps = r.chance(1, 3);
    let f_tags = r.chance(1, 2);
    let f_slices = r.chance(1, 3);
    let f_ud = r.chance(1, 2);
    let f_ext = r.chance(1, 5);
    let f_linked = r.chance(1, 2);
    let f_offcanvas = r.chance(1, 3);

    let fmt = *r.pick(&[Fmt::Rgba, Fmt::Rgba, Fmt::Gray, Fmt::Indexed, Fmt::Indexed]);
    let width = small(r, 20, 70) as u16;
    let height = small(r, 20, 70) as u16;
    let nframes = small(r, 4, 24) as usize;
    let nlayers = small(r, 5, 30) as usize;

    let mut s = SpriteSpec {
        width,
        height,
        fmt,
        transparent: if r.chance(2, 3) { 0 } else { r.byte() },
        durations: (0..nframes)
            .map(|_| if r.chance(1, 2) { 100 } else { r.below(65536) as u16 })
            .collect(),
        layers: Vec::new(),
        palette: None,
        legacy: None,
        tilesets: Vec::new(),
        cels: Vec::new(),
        tags: Vec::new(),
        tag_ud_count: 0,
        slices: Vec::new(),
        ext_files: Vec::new(),
        color_profile: if r.chance(2, 3) {
            Some(r.below(2) as u16)
        } else {
            None
        },
        sprite_ud: None,
        header_frames_override: None,
    };

    // palette
    let need_pal = fmt == Fmt::Indexed;
    if need_pal || r.chance(1, 2) {
        let legacy_only = r.chance(1, 6);
        if legacy_only {
            let ty = if r.chance(1, 2) { 0x0004 } else { 0x0011 };
            let n = small(r, 16, 256) as usize;
            let skip = if r.chance(3, 4) { 0 } else { r.below(40) as u8 };
            let cols = (0..n)
                .map(|_| {
                    if ty == 0x0011 {
                        [r.below(64) as u8, r.below(64) as u8, r.below(64) as u8]
                    } else {
                        [r.byte(), r.byte(), r.byte()]
                    }
                })
                .collect();
            let mut packets = vec![(skip, cols)];
            if !need_pal && r.chance(1, 12) {
                packets.clear(); // a legacy palette chunk announcing zero packets: an empty palette
            }
            if !need_pal && !packets.is_empty() && r.chance(1, 3) {
                let n2 = 1 + r.usize_below(5);
                packets.push((
                    r.below(4) as u8,
                    (0..n2).map(|_| [r.below(64) as u8, 0, 1]).collect(),
                ));
            }
            s.legacy = Some((ty, packets));
        } else {
            let n = small(r, 16, 256) as usize;
            let first = match r.below(20) {
                0..=15 => 0,
                16 | 17 => r.below(60) as u32,
                // ids reaching beyond 255: legal (32-bit ids), unusable by 8-bit pixels
                18 => 200 + r.below(56) as u32,
                _ => 255u32.saturating_sub(n as u32 / 2),
            };
            let entries = (0..n)
                .map(|_| {
                    let a = if r.chance(3, 4) { 255 } else { r.byte() };
                    (
                        [r.byte(), r.byte(), r.byte(), a],
                        if r.chance(1, 10) { Some(name(r)) } else { None },
                    )
                })
                .collect();
            s.palette = Some(PaletteSpec { first, entries });
            if r.chance(1, 4) {
                // redundant legacy chunk beside the new one
                let n2 = 1 + r.usize_below(8);
                s.legacy = Some((
                    if r.chance(1, 2) { 0x0004 } else { 0x0011 },
                    vec![(0, (0..n2).map(|_| [r.below(64) as u8, 3, 7]).collect())],
                ));
            }
        }
    }
    let dom = index_domain(&s);
    let dom = if dom.is_empty() { vec![0u8] } else { dom };

    // sprite user data needs a legacy palette chunk to hang on
    if f_ud && r.chance(1, 3) {
        if s.legacy.is_none() && s.palette.is_some() {
            s.legacy = Some((0x0004, vec![(0, vec![[0, 0, 0]])]));
        }
        if s.legacy.is_some() {
            s.sprite_ud = user_data(r, true).or(Some(UserData {
                text: Some("sprite".into()),
                color: None,
                props: None,
            }));
        }
    }

    // tilesets
    if f_tilemaps {
        let nts = 1 + r.usize_below(3);
        for k in 0..nts {
            let tw = small(r, 6, 17) as u16;
            let th = small(r, 6, 17) as u16;
            let count = small(r, 5, 20) as u32;
            let n = count as usize * tw as usize * th as usize;
            // every third extra tileset has exactly the shape of the first one
            let (tw, th, count) = match (k > 0 && r.chance(1, 3), s.tilesets.first()) {
                (true, Some(t0)) => (t0.tw, t0.th, t0.count),
                _ => (tw, th, count),
            };
            let n = count as usize * tw as usize * th as usize;
            s.tilesets.push(TilesetSpec {
                id: if r.chance(5, 6) { k as u32 } else { 10 + 3 * k as u32 },
                // 8 / 16 / 32: "match flipped tiles" modes of Aseprite 1.3 (ignored by the pinned tree)
                flags: 2 | if r.chance(3, 4) { 4 } else { 0 } | if r.chance(1, 6) { 1 } else { 0 } | if r.chance(1, 4) { (r.below(8) as u32) << 3 } else { 0 },
                count,
                tw,
                th,
                base_index: if r.chance(3, 4) { 1 } else { r.range(-3, 300) as i16 },
                name: name(r),
                pixels: pixels(r, fmt, n, &dom),
                level: r.below(10) as u32,
                ext: (r.below(5) as u32, if r.chance(1, 2) { r.below(5) as u32 } else { r.next() as u32 }),
            });
        }
    }

    // layers
    let mut prev_level: u16 = 0;
    let mut prev_group = false;
    for i in 0..nlayers {
        let level = if i == 0 {
            0
        } else if f_groups && prev_group && r.chance(2, 3) {
            prev_level + 1
        } else if prev_level > 0 && r.chance(1, 2) {
            r.below(prev_level as u64 + 1) as u16
        } else {
            prev_level
        };
        let kind = if f_groups && r.chance(1, 4) {
            1
        } else if !s.tilesets.is_empty() && r.chance(1, 3) {
            2
        } else {
            0
        };
        let mut flags: u16 = if r.chance(5, 6) { 1 } else { 0 };
        flags |= (r.below(8) as u16) << 1 & 0x76; // editable, lock, continuous, collapsed, ref
        if i == 0 && kind == 0 && r.chance(1, 5) {
            flags |= 0x0c; // background
        }
        let tsi = if kind == 2 {
            s.tilesets[r.usize_below(s.tilesets.len())].id
        } else {
            0
        };
        s.layers.push(LayerSpec {
            flags,
            kind,
            tileset: tsi,
            level,
            blend: if r.chance(1, 2) { 0 } else { r.below(19) as u16 },
            opacity: if r.chance(1, 2) { 255 } else { r.byte() },
            name: name(r),
            ud: user_data(r, f_ud),
        });
        prev_level = level;
        prev_group = kind == 1;
    }

    // cels
    let w = width as i64;
    let h = height as i64;
    for li in 0..nlayers {
        let kind = s.layers[li].kind;
        if kind == 1 {
            continue;
        }
        let mut raw_frames: Vec<u16> = Vec::new();
        for fi in 0..nframes {
            if !r.chance(3, 4) {
                continue;
            }
            let (x, y) = if f_offcanvas && r.chance(1, 2) {
                match r.below(5) {
                    0 => (r.range(-w - 3, w + 3) as i16, r.range(-h - 3, h + 3) as i16),
                    1 => (-32768, r.range(-2, 2) as i16),
                    2 => (32767, 32767),
                    3 => (r.range(-3, 3) as i16, -32768),
                    _ => (r.range(-40, 40) as i16, r.range(-40, 40) as i16),
                }
            } else {
                (r.range(0, (w - 1).max(0)) as i16, r.range(0, (h - 1).max(0)) as i16)
            };
            let body = if kind == 2 {
                let ts = s.tilesets.iter().find(|t| t.id == s.layers[li].tileset).unwrap();
                let tw = small(r, 5, 12) as u16;
                let th = small(r, 5, 12) as u16;
                let tiles = (0..tw as usize * th as usize)
                    .map(|_| {
                        let id = r.below(ts.count as u64) as u32;
                        if r.chance(1, 10) {
                            id | (r.below(8) as u32) << 29
                        } else {
                            id
                        }
                    })
                    .collect();
                CelBody::Tilemap {
                    w: tw,
                    h: th,
                    bits: 32,
                    masks: [0x1fff_ffff, 0x8000_0000, 0x4000_0000, 0x2000_0000],
                    tiles,
                    level: r.below(10) as u32,
                }
            } else if f_linked && !raw_frames.is_empty() && r.chance(1, 3) {
                CelBody::Linked(*r.pick(&raw_frames))
            } else {
                let cw = small(r, (w as u64).max(2), 40) as u16;
                let ch = small(r, (h as u64).max(2), 40) as u16;
                raw_frames.push(fi as u16);
                CelBody::Raw {
                    w: cw,
                    h: ch,
                    pixels: pixels(r, fmt, cw as usize * ch as usize, &dom),
                    compressed: r.chance(3, 4),
                    level: r.below(10) as u32,
                }
            };
            // tilemap cels are usually tile aligned
            let (x, y) = if let (2, true) = (kind, r.chance(2, 3)) {
                let ts = s.tilesets.iter().find(|t| t.id == s.layers[li].tileset).unwrap();
                (
                    (x as i32 / ts.tw as i32 * ts.tw as i32) as i16,
                    (y as i32 / ts.th as i32 * ts.th as i32) as i16,
                )
            } else {
                (x, y)
            };
            s.cels.push(CelSpec {
                frame: fi as u16,
                layer: li as u16,
                x,
                y,
                opacity: if r.chance(1, 2) { 255 } else { r.byte() },
                body,
                ud: user_data(r, f_ud),
                extra: r.chance(1, 10),
            });
        }
    }

    // one sprite in 16 carries a big cel as its very last chunk: payloads beyond 4 KiB and 64 KiB
    // (block sizes of typical read loops) placed where truncation and I/O faults land last
    if r.chance(1, 16) {
        if let Some(li) = s.layers.iter().rposition(|l| l.kind == 0) {
            let (bw, bh) = *r.pick(&[(40u16, 40u16), (64, 64), (100, 100), (128, 129), (200, 100)]);
            let fi = (nframes - 1) as u16;
            s.cels.retain(|c| !(c.layer as usize == li && c.frame == fi));
            s.cels.push(CelSpec {
                frame: fi,
                layer: li as u16,
                x: 0,
                y: 0,
                opacity: 255,
                body: CelBody::Raw {
                    w: bw,
                    h: bh,
                    pixels: pixels(r, fmt, bw as usize * bh as usize, &dom),
                    compressed: r.chance(1, 2),
                    level: r.below(10) as u32,
                },
                ud: None,
                extra: false,
            });
        }
    }

    if f_tags {
        let n = r.usize_below(5);
        for _ in 0..n {
            let a = r.below(nframes as u64) as u16;
            let b = r.below(nframes as u64) as u16;
            s.tags.push(TagSpec {
                from: a.min(b),
                to: a.max(b),
                dir: r.below(3) as u8,
                repeat: if r.chance(1, 2) { 0 } else { r.below(65536) as u16 },
                name: name(r),
                ud: user_data(r, f_ud),
            });
        }
        // how many user-data chunks follow the tags chunk (<= n)
        s.tag_ud_count = if f_ud && n > 0 { r.usize_below(n + 1) } else { 0 };
    }
    if f_slices {
        let n = 1 + r.usize_below(3);
        for _ in 0..n {
            let flags = r.below(4) as u32;
            let nk = r.usize_below(4);
            let keys = (0..nk)
                .map(|_| SliceKeySpec {
                    frame: r.below(nframes as u64) as u32,
                    x: if r.chance(1, 8) { i32::MIN } else { r.range(-50, 50) as i32 },
                    y: if r.chance(1, 8) { i32::MAX } else { r.range(-50, 50) as i32 },
                    w: if r.chance(1, 8) { u32::MAX } else { r.below(100) as u32 },
                    h: r.below(100) as u32,
                    nine: [r.below(9) as u32, r.below(9) as u32, r.below(9) as u32, r.below(9) as u32],
                    pivot: [r.range(-9, 9) as i32, r.range(-9, 9) as i32],
                })
                .collect();
            s.slices.push(SliceSpec {
                name: name(r),
                flags,
                keys,
                ud: user_data(r, f_ud),
            });
        }
    }
    if f_ext {
        let n = 1 + r.usize_below(3);
        for k in 0..n {
            s.ext_files.push((
                if r.chance(3, 4) { k as u32 + 1 } else { r.next() as u32 },
                r.below(4) as u8,
                name(r),
            ));
        }
    }
    s
}

// ---------------------------------------------------------------------------------------
// Encoder

/// Per-site encoding coins (the vector of neutral encoding choices).
#[derive(Clone, Debug)]
pub struct EncOpts {
    pub seed: u64,
    pub neutral: bool, // false => canonical encoding, no coins
}

struct Buf(Vec<u8>);
impl Buf {
    fn u8(&mut self, v: u8) {
        self.0.push(v)
    }
    fn u16(&mut self, v: u16) {
        self.0.extend_from_slice(&v.to_le_bytes())
    }
    fn i16(&mut self, v: i16) {
        self.0.extend_from_slice(&v.to_le_bytes())
    }
    fn u32(&mut self, v: u32) {
        self.0.extend_from_slice(&v.to_le_bytes())
    }
    fn i32(&mut self, v: i32) {
        self.0.extend_from_slice(&v.to_le_bytes())
    }
    fn zeros(&mut self, n: usize) {
        self.0.extend(std::iter::repeat(0u8).take(n))
    }
    fn bytes(&mut self, b: &[u8]) {
        self.0.extend_from_slice(b)
    }
    fn string(&mut self, s: &str) {
        self.u16(s.len() as u16);
        self.bytes(s.as_bytes());
    }
}

fn ud_chunk(ud: &UserData) -> (u16, Vec<u8>) {
    let mut b = Buf(Vec::new());
    let flags = ud.text.is_some() as u32 | (ud.color.is_some() as u32) << 1 | (ud.props.is_some() as u32) << 2;
    b.u32(flags);
    if let Some(t) = &ud.text {
        b.string(t);
    }
    if let Some(c) = &ud.color {
        b.bytes(c);
    }
    if let Some(p) = &ud.props {
        b.bytes(p);
    }
    (0x2020, b.0)
}

fn cel_chunk(c: &CelSpec) -> (u16, Vec<u8>) {
    let mut b = Buf(Vec::new());
    b.u16(c.layer);
    b.i16(c.x);
    b.i16(c.y);
    b.u8(c.opacity);
    let ct = match &c.body {
        CelBody::Raw { compressed, .. } => {
            if *compressed {
                2
            } else {
                0
            }
        }
        CelBody::Linked(_) => 1,
        CelBody::Tilemap { .. } => 3,
        CelBody::Opaque { cel_type, .. } => *cel_type,
    };
    b.u16(ct);
    b.zeros(7);
    match &c.body {
        CelBody::Raw {
            w,
            h,
            pixels,
            compressed,
            level,
        } => {
            b.u16(*w);
            b.u16(*h);
            if *compressed {
                b.bytes(&zlib(pixels, *level));
            } else {
                b.bytes(pixels);
            }
        }
        CelBody::Linked(f) => b.u16(*f),
        CelBody::Tilemap {
            w,
            h,
            bits,
            masks,
            tiles,
            level,
        } => {
            b.u16(*w);
            b.u16(*h);
            b.u16(*bits);
            for m in masks {
                b.u32(*m);
            }
            b.zeros(10);
            let mut raw = Vec::with_capacity(tiles.len() * 4);
            for t in tiles {
                raw.extend_from_slice(&t.to_le_bytes());
            }
            b.bytes(&zlib(&raw, *level));
        }
        CelBody::Opaque { body, .. } => b.bytes(body),
    }
    (0x2005, b.0)
}

fn layer_chunk(l: &LayerSpec) -> (u16, Vec<u8>) {
    let mut b = Buf(Vec::new());
    b.u16(l.flags);
    b.u16(l.kind);
    b.u16(l.level);
    b.u16(0);
    b.u16(0);
    b.u16(l.blend);
    b.u8(l.opacity);
    b.zeros(3);
    b.string(&l.name);
    if l.kind == 2 {
        b.u32(l.tileset);
    }
    (0x2004, b.0)
}

fn tileset_chunk(t: &TilesetSpec) -> (u16, Vec<u8>) {
    let mut b = Buf(Vec::new());
    b.u32(t.id);
    b.u32(t.flags);
    b.u32(t.count);
    b.u16(t.tw);
    b.u16(t.th);
    b.i16(t.base_index);
    b.zeros(14);
    b.string(&t.name);
    if t.flags & 1 != 0 {
        b.u32(t.ext.0);
        b.u32(t.ext.1);
    }
    if t.flags & 2 != 0 {
        let z = zlib(&t.pixels, t.level);
        b.u32(z.len() as u32);
        b.bytes(&z);
    }
    (0x2023, b.0)
}

fn legacy_chunk(ty: u16, packets: &[(u8, Vec<[u8; 3]>)]) -> (u16, Vec<u8>) {
    let mut b = Buf(Vec::new());
    b.u16(packets.len() as u16);
    for (skip, cols) in packets {
        b.u8(*skip);
        b.u8(if cols.len() >= 256 { 0 } else { cols.len() as u8 });
        for c in cols.iter().take(256) {
            b.bytes(c);
        }
    }
    (ty, b.0)
}

fn palette_chunk(p: &PaletteSpec) -> (u16, Vec<u8>) {
    let mut b = Buf(Vec::new());
    let n = p.entries.len() as u32;
    b.u32(p.first + n);
    b.u32(p.first);
    b.u32(p.first + n - 1);
    b.zeros(8);
    for (rgba, nm) in &p.entries {
        b.u16(nm.is_some() as u16);
        b.bytes(rgba);
        if let Some(nm) = nm {
            b.string(nm);
        }
    }
    (0x2019, b.0)
}

pub fn encode(s: &SpriteSpec, opts: &EncOpts) -> Vec<u8> {
    let mut r = Rng::sub(opts.seed, "enc");
    let coin = |r: &mut Rng, n: u64, d: u64| opts.neutral && r.chance(n, d);
    let nframes = s.durations.len();
    let mut frames: Vec<Vec<(u16, Vec<u8>)>> = vec![Vec::new(); nframes];

    {
        let f0 = &mut frames[0];
        if let Some(t) = s.color_profile {
            let mut b = Buf(Vec::new());
            b.u16(t);
            b.u16(0);
            b.u32(0);
            b.zeros(8);
            f0.push((0x2007, b.0));
        }
        if !s.ext_files.is_empty() {
            let mut b = Buf(Vec::new());
            b.u32(s.ext_files.len() as u32);
            b.zeros(8);
            for (id, ty, nm) in &s.ext_files {
                b.u32(*id);
                b.u8(*ty);
                b.zeros(7);
                b.string(nm);
            }
            f0.push((0x2008, b.0));
        }
        let legacy_first = s.legacy.is_some() && s.palette.is_some() && coin(&mut r, 1, 2);
        if legacy_first {
            if let Some((ty, p)) = &s.legacy {
                f0.push(legacy_chunk(*ty, p));
                if let Some(ud) = &s.sprite_ud {
                    f0.push(ud_chunk(ud));
                }
            }
        }
        if let Some(p) = &s.palette {
            f0.push(palette_chunk(p));
        }
        if !legacy_first {
            if let Some((ty, p)) = &s.legacy {
                f0.push(legacy_chunk(*ty, p));
                if let Some(ud) = &s.sprite_ud {
                    f0.push(ud_chunk(ud));
                }
            }
        }
        for t in &s.tilesets {
            f0.push(tileset_chunk(t));
        }
        for l in &s.layers {
            f0.push(layer_chunk(l));
            if coin(&mut r, 1, 12) {
                f0.push((0x2017, Vec::new())); // path chunk (ignorable)
            }
            if let Some(ud) = &l.ud {
                f0.push(ud_chunk(ud));
            }
        }
        if !s.tags.is_empty() {
            let mut b = Buf(Vec::new());
            b.u16(s.tags.len() as u16);
            b.zeros(8);
            for t in &s.tags {
                b.u16(t.from);
                b.u16(t.to);
                b.u8(t.dir);
                b.u16(t.repeat);
                b.zeros(6);
                b.bytes(&[1, 2, 3]);
                b.u8(0);
                b.string(&t.name);
            }
            f0.push((0x2018, b.0));
            for t in s.tags.iter().take(s.tag_ud_count) {
                let ud = t.ud.clone().unwrap_or(UserData {
                    text: None,
                    color: None,
                    props: None,
                });
                f0.push(ud_chunk(&ud));
            }
        }
        for sl in &s.slices {
            let mut b = Buf(Vec::new());
            b.u32(sl.keys.len() as u32);
            b.u32(sl.flags);
            b.u32(0);
            b.string(&sl.name);
            for k in &sl.keys {
                b.u32(k.frame);
                b.i32(k.x);
                b.i32(k.y);
                b.u32(k.w);
                b.u32(k.h);
                if sl.flags & 1 != 0 {
                    b.i32(k.nine[0] as i32);
                    b.i32(k.nine[1] as i32);
                    b.u32(k.nine[2]);
                    b.u32(k.nine[3]);
                }
                if sl.flags & 2 != 0 {
                    b.i32(k.pivot[0]);
                    b.i32(k.pivot[1]);
                }
            }
            f0.push((0x2022, b.0));
            if let Some(ud) = &sl.ud {
                f0.push(ud_chunk(ud));
            }
        }
    }
    // cels, per frame, order optionally shuffled
    for fi in 0..nframes {
        let mut idx: Vec<usize> = (0..s.cels.len())
            .filter(|i| s.cels[*i].frame as usize == fi)
            .collect();
        if coin(&mut r, 1, 3) {
            r.shuffle(&mut idx);
        }
        for i in idx {
            let c = &s.cels[i];
            frames[fi].push(cel_chunk(c));
            if c.extra {
                let mut b = Buf(Vec::new());
                b.u32(1);
                b.zeros(16);
                b.zeros(16);
                frames[fi].push((0x2006, b.0));
            }
            if let Some(ud) = &c.ud {
                frames[fi].push(ud_chunk(ud));
            }
        }
        if coin(&mut r, 1, 20) {
            // a deprecated mask chunk somewhere harmless: at the very start of the frame would
            // be before any entity; keep it at the end where no user data follows.
            let mut b = Buf(Vec::new());
            b.i16(0);
            b.i16(0);
            b.u16(8);
            b.u16(1);
            b.zeros(8);
            b.string("m");
            b.u8(0xff);
            frames[fi].push((0x2016, b.0));
        }
    }

    // container
    let mut out = Buf(Vec::new());
    out.u32(0); // file size, patched
    out.u16(0xA5E0);
    out.u16(s.header_frames_override.unwrap_or(nframes as u16));
    out.u16(s.width);
    out.u16(s.height);
    out.u16(s.fmt.depth());
    out.u32(if coin(&mut r, 1, 4) { r.next() as u32 & 0x7 } else { 1 });
    out.u16(100);
    out.u32(0);
    out.u32(0);
    out.u8(s.transparent);
    out.zeros(3);
    out.u16(if coin(&mut r, 1, 4) { r.below(300) as u16 } else { 0 });
    let ratio = if coin(&mut r, 1, 5) {
        *r.pick(&[(0u8, 0u8), (0, 7), (3, 0), (1, 1)])
    } else {
        (1, 1)
    };
    out.u8(ratio.0);
    out.u8(ratio.1);
    out.i16(0);
    out.i16(0);
    out.u16(if coin(&mut r, 1, 4) { r.below(65536) as u16 } else { 16 });
    out.u16(16);
    out.zeros(84);
    for (fi, chunks) in frames.iter().enumerate() {
        let fstart = out.0.len();
        out.u32(0);
        out.u16(0xF1FA);
        let n = chunks.len() as u32;
        let (old, new) = match if opts.neutral { r.below(4) } else { 0 } {
            0 => (n.min(0xFFFF) as u16, n),
            1 => (n.min(0xFFFF) as u16, if n < 0xFFFF { 0 } else { n }),
            2 => (0xFFFF, n),
            _ => (if n == 0 { 0 } else { r.below(65536) as u16 }, n),
        };
        // new == 0 means "use old": only legal when old carries the count
        let (old, new) = if new == 0 && old as u32 != n { (n as u16, 0) } else { (old, new) };
        out.u16(old);
        out.u16(s.durations[fi]);
        out.zeros(2);
        out.u32(new);
        for (ty, body) in chunks {
            let pad = if coin(&mut r, 1, 16) { r.usize_below(9) } else { 0 };
            out.u32((6 + body.len() + pad) as u32);
            out.u16(*ty);
            out.bytes(body);
            for _ in 0..pad {
                let v = r.byte();
                out.u8(v);
            }
        }
        let fend = out.0.len();
        let sz = (fend - fstart) as u32;
        out.0[fstart..fstart + 4].copy_from_slice(&sz.to_le_bytes());
    }
    let total = out.0.len() as u32;
    out.0[0..4].copy_from_slice(&total.to_le_bytes());
    // extra bytes after the last frame (ignored by readers; the header's file size may or may not
    // count them)
    if coin(&mut r, 1, 10) {
        let n = 1 + r.usize_below(64);
        let junk = r.bytes(n);
        out.bytes(&junk);
        if r.chance(1, 2) {
            let total = out.0.len() as u32;
            out.0[0..4].copy_from_slice(&total.to_le_bytes());
        }
    }
    out.0
}

// ---------------------------------------------------------------------------------------
// Producer bugs (spec-level faults)

pub const BUGS: &[&str] = &[
    "tile-id-oob",
    "cel-dims-inflated",
    "cel-dims-deflated",
    "tileset-pixels-short",
    "tileset-pixels-long",
    "tile-size-zero",
    "tilemap-tiles-short",
    "tilemap-tiles-long",
    "indexed-pixel-oob",
    "link-bad-frame",
    "link-to-link",
    "link-to-missing",
    "cel-layer-oob",
    "first-layer-child",
    "level-jump",
    "deep-nesting",
    "layer-missing-tileset",
    "tilemap-cel-on-image-layer",
    "raw-cel-on-tilemap-layer",
    "cel-on-group",
    "indexed-no-palette",
    "dup-cel",
    "deflate-bomb",
    "huge-cel-tiny-stream",
    "tag-ud-overflow",
    "zlib-corrupt",
    "tileset-dup-id",
    "tileset-external-only",
    "tileset-count-wrap",
    "tileset-huge-count-zero-size",
    "many-layers",
    "many-frames-high-layer",
    "many-tags",
    "palette-huge-range",
    "ext-files-huge-count",
    "tilemap-bits",
    "frames-more-than-present",
    "tilemap-neg-offset-extreme",
    "gray-odd-bytes",
    "empty-cel",
    "dangling-user-data",
    "tilemap-huge-extent",
    "link-chain",
    "sparse-palette-gap",
    "bomb-with-links",
    "link-to-tilemap",
    "many-palette-packets",
    "chunk-size-boundary",
    "tags-in-later-frame",
    "zlib-split-a",
    "zlib-split-b",
    "color-profile-icc",
    "palette-shift-a",
    "palette-shift-b",
    "tilemap-bomb-with-links",
    "deep-nesting-closed",
    "tileset-bomb",
    "indexed-bomb-missing-index",
    "userdata-props-deep",
    "bomb-plus-error",
];

fn ensure_tilemap(s: &mut SpriteSpec, r: &mut Rng) -> usize {
    // returns index of a tilemap cel in s.cels, creating tileset/layer/cel if needed
    if let Some(i) = s
        .cels
        .iter()
        .position(|c| matches!(c.body, CelBody::Tilemap { .. }))
    {
        return i;
    }
    let dom = {
        let d = index_domain(s);
        if d.is_empty() {
            vec![0]
        } else {
            d
        }
    };
    if s.tilesets.is_empty() {
        let n = 3 * 2 * 2;
        s.tilesets.push(TilesetSpec {
            id: 0,
            flags: 6,
            count: 3,
            tw: 2,
            th: 2,
            base_index: 1,
            name: "ts".into(),
            pixels: pixels(r, s.fmt, n, &dom),
            level: 6,
            ext: (0, 0),
        });
    }
    let ts = s.tilesets[0].clone();
    let li = s.layers.len();
    s.layers.push(LayerSpec {
        flags: 1,
        kind: 2,
        tileset: ts.id,
        level: 0,
        blend: 0,
        opacity: 255,
        name: "tm".into(),
        ud: None,
    });
    s.cels.push(CelSpec {
        frame: 0,
        layer: li as u16,
        x: 0,
        y: 0,
        opacity: 255,
        body: CelBody::Tilemap {
            w: 2,
            h: 2,
            bits: 32,
            masks: [0x1fff_ffff, 0x8000_0000, 0x4000_0000, 0x2000_0000],
            tiles: vec![0, 1, 2 % ts.count, 0],
            level: 6,
        },
        ud: None,
        extra: false,
    });
    s.cels.len() - 1
}

fn ensure_raw(s: &mut SpriteSpec, r: &mut Rng) -> usize {
    if let Some(i) = s.cels.iter().position(|c| matches!(c.body, CelBody::Raw { .. })) {
        return i;
    }
    let dom = {
        let d = index_domain(s);
        if d.is_empty() {
            vec![0]
        } else {
            d
        }
    };
    let li = match s.layers.iter().position(|l| l.kind == 0) {
        Some(i) => i,
        None => {
            s.layers.push(LayerSpec {
                flags: 1,
                kind: 0,
                tileset: 0,
                level: 0,
                blend: 0,
                opacity: 255,
                name: "img".into(),
                ud: None,
            });
            s.layers.len() - 1
        }
    };
    // make sure the slot is free
    s.cels.retain(|c| !(c.layer as usize == li && c.frame == 0));
    s.cels.push(CelSpec {
        frame: 0,
        layer: li as u16,
        x: 0,
        y: 0,
        opacity: 255,
        body: CelBody::Raw {
            w: 3,
            h: 2,
            pixels: pixels(r, s.fmt, 6, &dom),
            compressed: r.chance(1, 2),
            level: 6,
        },
        ud: None,
        extra: false,
    });
    s.cels.len() - 1
}

/// Apply producer bug `bug` to the spec. `scale` bounds the size of "long sequence" bugs.
/// Returns a short description.
pub fn apply_bug(s: &mut SpriteSpec, bug: &str, r: &mut Rng, scale: usize) -> String {
    let bpp = s.fmt.bpp();
    match bug {
        "tile-id-oob" => {
            let i = ensure_tilemap(s, r);
            let layer = s.cels[i].layer as usize;
            let count = s
                .tilesets
                .iter()
                .find(|t| t.id == s.layers[layer].tileset)
                .map(|t| t.count)
                .unwrap_or(1);
            let v = *r.pick(&[count, count + 1, 0x1fff_ffff, count.wrapping_mul(2) | 1]);
            if let CelBody::Tilemap { tiles, .. } = &mut s.cels[i].body {
                let k = r.usize_below(tiles.len().max(1));
                if tiles.is_empty() {
                    tiles.push(v);
                } else {
                    tiles[k] = v;
                }
            }
            format!("tile id {} with tile count {}", v, count)
        }
        "cel-dims-inflated" | "cel-dims-deflated" => {
            let i = ensure_raw(s, r);
            if let CelBody::Raw { w, h, pixels, .. } = &mut s.cels[i].body {
                let (ow, oh) = (*w, *h);
                if bug == "cel-dims-inflated" {
                    match r.below(3) {
                        0 => *w += 1,
                        1 => *h += 1 + r.below(3) as u16,
                        _ => {
                            let keep = r.usize_below(pixels.len() / bpp + 1) * bpp;
                            pixels.truncate(keep)
                        }
                    }
                } else {
                    let extra = (1 + r.usize_below(5)) * bpp;
                    pixels.extend(std::iter::repeat(pixels.first().copied().unwrap_or(0)).take(extra));
                }
                format!("cel {}x{} declared {}x{} with {} bytes", ow, oh, *w, *h, pixels.len())
            } else {
                String::new()
            }
        }
        "tileset-pixels-short" | "tileset-pixels-long" => {
            ensure_tilemap(s, r);
            let t = &mut s.tilesets[0];
            if bug == "tileset-pixels-short" {
                let tile = t.tw as usize * t.th as usize * bpp;
                let keep = if r.chance(1, 2) {
                    t.pixels.len().saturating_sub(tile)
                } else {
                    r.usize_below(t.pixels.len() / bpp + 1) * bpp
                };
                t.pixels.truncate(keep);
            } else {
                let extra = (1 + r.usize_below(9)) * bpp;
                let v = t.pixels.first().copied().unwrap_or(0);
                t.pixels.extend(std::iter::repeat(v).take(extra));
            }
            format!("tileset {} tiles {}x{} with {} bytes", t.count, t.tw, t.th, t.pixels.len())
        }
        "tile-size-zero" => {
            ensure_tilemap(s, r);
            let t = &mut s.tilesets[0];
            match r.below(3) {
                0 => t.tw = 0,
                1 => t.th = 0,
                _ => {
                    t.tw = 0;
                    t.th = 0
                }
            }
            t.pixels.clear();
            format!("tile size {}x{}", t.tw, t.th)
        }
        "tilemap-tiles-short" | "tilemap-tiles-long" => {
            let i = ensure_tilemap(s, r);
            if let CelBody::Tilemap { tiles, w, h, .. } = &mut s.cels[i].body {
                if bug == "tilemap-tiles-short" {
                    let keep = r.usize_below(tiles.len());
                    tiles.truncate(keep);
                } else {
                    tiles.push(0);
                    tiles.push(0);
                }
                format!("tilemap {}x{} with {} tiles", w, h, tiles.len())
            } else {
                String::new()
            }
        }
        "indexed-pixel-oob" => {
            s.fmt = Fmt::Indexed;
            // rebuild all pixel buffers as indexed, then poison one
            let dom = {
                if s.palette.is_none() && s.legacy.is_none() {
                    s.palette = Some(PaletteSpec {
                        first: 0,
                        entries: vec![([1, 2, 3, 255], None); 4],
                    });
                }
                index_domain(s)
            };
            // which missing index: the highest, a random one, or the transparent index itself
            // (shifting the palette up by one if needed so that it really is missing)
            let missing: Vec<u8> = (0..=255u8).filter(|b| !dom.contains(b)).collect();
            let mut bad = match r.below(3) {
                0 => missing.last().copied(),
                1 if !missing.is_empty() => Some(*r.pick(&missing)),
                _ => {
                    if let Some(p) = &mut s.palette {
                        if p.first <= s.transparent as u32 {
                            p.first = s.transparent as u32 + 1;
                        }
                    }
                    Some(s.transparent)
                }
            };
            let dom = index_domain(s);
            let dom = if dom.is_empty() { vec![0u8] } else { dom };
            if let Some(b) = bad {
                if dom.contains(&b) {
                    bad = (0..=255u8).rev().find(|x| !dom.contains(x));
                }
            }
            if r.chance(1, 2) {
                if let Some(l) = s.layers.iter_mut().find(|l| l.kind == 0) {
                    l.flags |= 0x0c; // background layer
                }
            }
            for c in &mut s.cels {
                if let CelBody::Raw { w, h, pixels: p, .. } = &mut c.body {
                    *p = pixels(r, Fmt::Indexed, *w as usize * *h as usize, &dom);
                }
            }
            for t in &mut s.tilesets {
                t.pixels = pixels(r, Fmt::Indexed, t.count as usize * t.tw as usize * t.th as usize, &dom);
            }
            let in_tileset = !s.tilesets.is_empty() && r.chance(1, 2);
            if let Some(bad) = bad {
                if in_tileset {
                    let t = &mut s.tilesets[0];
                    if !t.pixels.is_empty() {
                        let k = r.usize_below(t.pixels.len());
                        t.pixels[k] = bad;
                    }
                } else {
                    let i = ensure_raw(s, r);
                    if let CelBody::Raw { pixels: p, w, h, .. } = &mut s.cels[i].body {
                        *p = pixels(r, Fmt::Indexed, *w as usize * *h as usize, &dom);
                        let k = r.usize_below(p.len());
                        p[k] = bad;
                    }
                }
            }
            format!("pixel index {:?} outside palette (tileset={})", bad, in_tileset)
        }
        "link-bad-frame" | "link-to-link" | "link-to-missing" => {
            let i = ensure_raw(s, r);
            let layer = s.cels[i].layer;
            let nframes = s.durations.len() as u16;
            if nframes < 3 {
                s.durations.push(100);
                s.durations.push(100);
            }
            let nframes = s.durations.len() as u16;
            let raw_frame = s.cels[i].frame;
            s.cels.retain(|c| c.layer != layer || c.frame == raw_frame);
            let free: Vec<u16> = (0..nframes).filter(|f| *f != raw_frame).collect();
            let target = match bug {
                "link-bad-frame" => *r.pick(&[nframes, nframes + 1, 0xFFFF, 0x8000]),
                "link-to-missing" => free[1],
                _ => free[1],
            };
            if bug == "link-to-link" {
                s.cels.push(CelSpec {
                    frame: free[1],
                    layer,
                    x: 0,
                    y: 0,
                    opacity: 255,
                    body: CelBody::Linked(raw_frame),
                    ud: None,
                    extra: false,
                });
            }
            s.cels.push(CelSpec {
                frame: free[0],
                layer,
                x: 1,
                y: 1,
                opacity: 200,
                body: CelBody::Linked(target),
                ud: None,
                extra: false,
            });
            format!("linked cel (f{},l{}) -> frame {}", free[0], layer, target)
        }
        "cel-layer-oob" => {
            let n = s.layers.len() as u16;
            let v = *r.pick(&[n, n + 1, n + 7, 0xFFFF, 0x8000]);
            let kind = r.below(3);
            let body = match kind {
                0 => CelBody::Raw {
                    w: 1,
                    h: 1,
                    pixels: vec![0; bpp],
                    compressed: r.chance(1, 2),
                    level: 1,
                },
                1 => CelBody::Linked(0),
                _ => CelBody::Tilemap {
                    w: 1,
                    h: 1,
                    bits: 32,
                    masks: [0x1fff_ffff, 0, 0, 0],
                    tiles: vec![0],
                    level: 1,
                },
            };
            if s.fmt == Fmt::Indexed && s.palette.is_none() && s.legacy.is_none() {
                s.palette = Some(PaletteSpec {
                    first: 0,
                    entries: vec![([0, 0, 0, 255], None)],
                });
            }
            s.cels.push(CelSpec {
                frame: r.below(s.durations.len() as u64) as u16,
                layer: v,
                x: 0,
                y: 0,
                opacity: 255,
                body,
                ud: if r.chance(1, 3) {
                    Some(UserData {
                        text: Some("x".into()),
                        color: None,
                        props: None,
                    })
                } else {
                    None
                },
                extra: false,
            });
            format!("cel kind {} on layer {} of {}", kind, v, n)
        }
        "first-layer-child" => {
            let v = *r.pick(&[1u16, 2, 0xFFFF]);
            s.layers[0].level = v;
            format!("first layer child level {}", v)
        }
        "level-jump" => {
            let i = r.usize_below(s.layers.len());
            let v = s.layers[i].level.saturating_add(*r.pick(&[2u16, 3, 1000, 0xFFFF]));
            s.layers[i].level = v;
            format!("layer {} child level {}", i, v)
        }
        "deep-nesting" | "deep-nesting-closed" => {
            let n = scale.max(2);
            let base = s.layers.len();
            for k in 0..n {
                s.layers.push(LayerSpec {
                    flags: 1,
                    kind: if k + 1 == n { 0 } else { 1 },
                    tileset: 0,
                    level: k.min(0xFFFF) as u16,
                    blend: 0,
                    opacity: 255,
                    name: String::new(),
                    ud: None,
                });
            }
            // half of the time the chain is followed by a layer that closes (almost) all levels at
            // once, and by one that reopens a level below it
            if bug == "deep-nesting-closed" || r.chance(1, 2) {
                let lv = r.below(3) as u16;
                s.layers.push(LayerSpec {
                    flags: 1,
                    kind: 1,
                    tileset: 0,
                    level: lv.min(n.saturating_sub(1) as u16),
                    blend: 0,
                    opacity: 255,
                    name: "after".into(),
                    ud: None,
                });
                s.layers.push(LayerSpec {
                    flags: 1,
                    kind: 0,
                    tileset: 0,
                    level: lv.min(n.saturating_sub(1) as u16) + 1,
                    blend: 0,
                    opacity: 255,
                    name: "child".into(),
                    ud: None,
                });
            }
            // a cel on the innermost layer so that rendering walks the chain
            if base + n - 1 <= 0xFFFF {
                if s.fmt == Fmt::Indexed && s.palette.is_none() && s.legacy.is_none() {
                    s.palette = Some(PaletteSpec {
                        first: 0,
                        entries: vec![([0, 0, 0, 255], None)],
                    });
                }
                let px = if s.fmt == Fmt::Indexed {
                    vec![*index_domain(s).first().unwrap_or(&0)]
                } else {
                    vec![9; bpp]
                };
                s.cels.push(CelSpec {
                    frame: 0,
                    layer: (base + n - 1) as u16,
                    x: 0,
                    y: 0,
                    opacity: 255,
                    body: CelBody::Raw {
                        w: 1,
                        h: 1,
                        pixels: px,
                        compressed: false,
                        level: 0,
                    },
                    ud: None,
                    extra: false,
                });
            }
            format!("{} nested groups", n)
        }
        "layer-missing-tileset" => {
            let i = ensure_tilemap(s, r);
            let layer = s.cels[i].layer as usize;
            let v = *r.pick(&[99u32, 0xFFFF_FFFF, 0x8000_0000]);
            s.layers[layer].tileset = v;
            format!("tilemap layer {} -> tileset {}", layer, v)
        }
        "tilemap-cel-on-image-layer" => {
            let i = ensure_tilemap(s, r);
            let layer = s.cels[i].layer as usize;
            s.layers[layer].kind = if r.chance(1, 2) { 0 } else { 1 };
            format!("tilemap cel on layer kind {}", s.layers[layer].kind)
        }
        "raw-cel-on-tilemap-layer" => {
            let i = ensure_tilemap(s, r);
            let layer = s.cels[i].layer;
            let nf = s.durations.len() as u16;
            let px = if s.fmt == Fmt::Indexed {
                vec![*index_domain(s).first().unwrap_or(&0); 4]
            } else {
                vec![7; 4 * bpp]
            };
            let fr = (0..nf).find(|f| !s.cels.iter().any(|c| c.layer == layer && c.frame == *f));
            let body = CelBody::Raw {
                w: 2,
                h: 2,
                pixels: px,
                compressed: true,
                level: 3,
            };
            match fr {
                Some(f) => s.cels.push(CelSpec {
                    frame: f,
                    layer,
                    x: 0,
                    y: 0,
                    opacity: 255,
                    body,
                    ud: None,
                    extra: false,
                }),
                None => s.cels[i].body = body,
            }
            "raw cel on tilemap layer".into()
        }
        "cel-on-group" => {
            let i = ensure_raw(s, r);
            let layer = s.cels[i].layer as usize;
            s.layers[layer].kind = 1;
            "raw cel on group layer".into()
        }
        "indexed-no-palette" => {
            s.fmt = Fmt::Indexed;
            s.palette = None;
            s.legacy = None;
            s.sprite_ud = None;
            for c in &mut s.cels {
                if let CelBody::Raw { w, h, pixels: p, .. } = &mut c.body {
                    *p = vec![0; *w as usize * *h as usize];
                }
            }
            for t in &mut s.tilesets {
                t.pixels = vec![0; t.count as usize * t.tw as usize * t.th as usize];
            }
            let with_cel = r.chance(2, 3);
            if with_cel {
                ensure_raw(s, r);
            }
            format!("indexed without palette, raw cel present: {}", with_cel)
        }
        "dup-cel" => {
            let i = ensure_raw(s, r);
            let c = s.cels[i].clone();
            s.cels.push(c);
            "duplicate cel".into()
        }
        "deflate-bomb" => {
            let i = ensure_raw(s, r);
            let n = scale.max(1) << 20;
            // in indexed mode half of the bombs consist of an index the palette does not have
            let fill = if s.fmt == Fmt::Indexed && r.chance(1, 2) {
                let dom = index_domain(s);
                (0..=255u8).rev().find(|b| !dom.contains(b)).unwrap_or(0)
            } else {
                0u8
            };
            if let CelBody::Raw {
                pixels,
                compressed,
                level,
                w,
                h,
            } = &mut s.cels[i].body
            {
                *pixels = vec![fill; n];
                *compressed = true;
                *level = 9;
                match r.below(3) {
                    0 => {
                        *w = 0xFFFF;
                        *h = 0xFFFF;
                    }
                    1 => {
                        // truthful declaration: w x h x bpp == inflated size (as far as 16-bit sides allow)
                        let px = n / bpp;
                        *w = 4096.min(px.max(1)) as u16;
                        *h = (px / *w as usize).clamp(1, 65535) as u16;
                        pixels.truncate(*w as usize * *h as usize * bpp);
                    }
                    _ => {}
                }
            }
            format!("cel zlib stream inflating to {} MiB", scale.max(1))
        }
        "huge-cel-tiny-stream" => {
            let i = ensure_raw(s, r);
            let raw = r.chance(1, 2);
            if let CelBody::Raw { w, h, compressed, .. } = &mut s.cels[i].body {
                *w = *r.pick(&[0xFFFFu16, 0x8000, 0x4000]);
                *h = *r.pick(&[0xFFFFu16, 0x8000, 0x4000]);
                *compressed = !raw;
            }
            format!("cel declares huge size, raw={}", raw)
        }
        "tag-ud-overflow" => {
            if s.tags.is_empty() {
                s.tags.push(TagSpec {
                    from: 0,
                    to: 0,
                    dir: 0,
                    repeat: 0,
                    name: "t".into(),
                    ud: None,
                });
            }
            s.tag_ud_count = s.tags.len();
            // the extra record(s) are inserted on the bytes by encode_with_bug()
            format!("{} user data records after {} tags", s.tag_ud_count, s.tags.len())
        }
        "zlib-corrupt" => {
            let i = ensure_raw(s, r);
            if let CelBody::Raw { w, h, pixels, level, .. } = &s.cels[i].body {
                let mut z = zlib(pixels, *level);
                match r.below(3) {
                    0 => {
                        let k = z.len() - 1;
                        z[k] ^= 0x55
                    }
                    1 => {
                        let keep = r.usize_below(z.len());
                        z.truncate(keep)
                    }
                    _ => {
                        let k = r.usize_below(z.len());
                        z[k] ^= 1 << r.below(8)
                    }
                }
                let mut body = Vec::new();
                body.extend_from_slice(&w.to_le_bytes());
                body.extend_from_slice(&h.to_le_bytes());
                body.extend_from_slice(&z);
                s.cels[i].body = CelBody::Opaque { cel_type: 2, body };
            }
            "corrupted zlib stream".into()
        }
        "tileset-dup-id" => {
            ensure_tilemap(s, r);
            let first = s.tilesets[0].clone();
            let mut t = first.clone();
            t.name = "dup".into();
            if r.chance(1, 3) {
                // the original variant: a second, smaller, embedded tileset
                t.count = 1;
                t.pixels.truncate(t.tw as usize * t.th as usize * bpp);
                s.tilesets.push(t);
                return "two tilesets with one id (second has 1 tile)".into();
            }
            // a second chunk for the same id whose metadata, flags and pixel data are drawn
            // independently: embedded / external-only / both / neither, other tile count or size,
            // pixels consistent with its own header or inherited from the first chunk
            t.count = *r.pick(&[1u32, first.count, first.count + 2, first.count.saturating_sub(1).max(1), first.count * 2 + 1]);
            let (tw, th) = *r.pick(&[(first.tw, first.th), (first.tw * 2, first.th), (first.tw, first.th * 2), (1, 1), (first.tw + 1, first.th)]);
            t.tw = tw;
            t.th = th;
            t.flags = *r.pick(&[6u32, 2, 1, 1, 5, 7, 0]);
            if t.flags & 2 != 0 {
                if r.chance(3, 4) {
                    let dom = {
                        let d = index_domain(s);
                        if d.is_empty() {
                            vec![0]
                        } else {
                            d
                        }
                    };
                    t.pixels = pixels(r, s.fmt, t.count as usize * tw as usize * th as usize, &dom);
                }
            } else {
                t.pixels.clear();
            }
            let d = format!(
                "two tileset chunks with one id: second declares {} tiles of {}x{}, flags {} ({} pixel bytes); first {} tiles of {}x{}",
                t.count,
                tw,
                th,
                t.flags,
                t.pixels.len(),
                first.count,
                first.tw,
                first.th
            );
            if r.chance(1, 3) {
                s.tilesets.insert(0, t);
            } else {
                s.tilesets.push(t);
            }
            d
        }
        "tileset-external-only" => {
            ensure_tilemap(s, r);
            s.tilesets[0].flags = 1;
            "tileset without embedded pixels".into()
        }
        "tileset-count-wrap" => {
            ensure_tilemap(s, r);
            let t = &mut s.tilesets[0];
            // count * tw * th == 2^32 (wraps to 0) or 2^32 + small
            t.count = 0x1_0000;
            t.tw = 256;
            t.th = 256;
            t.pixels.clear();
            "tileset count*w*h = 2^32".into()
        }
        "tileset-huge-count-zero-size" => {
            ensure_tilemap(s, r);
            let t = &mut s.tilesets[0];
            t.count = *r.pick(&[0xFFFF_FFFFu32, 0x8000_0000, 0x1_0001]);
            if r.chance(1, 2) {
                t.tw = 0
            } else {
                t.th = 0
            }
            t.pixels.clear();
            format!("tileset count {} with size {}x{}", t.count, t.tw, t.th)
        }
        "many-layers" => {
            let n = scale.max(2);
            for k in 0..n {
                s.layers.push(LayerSpec {
                    flags: 1,
                    kind: 0,
                    tileset: 0,
                    level: 0,
                    blend: (k % 19) as u16,
                    opacity: 255,
                    name: String::new(),
                    ud: None,
                });
            }
            format!("{} extra flat layers", n)
        }
        "many-frames-high-layer" => {
            let nf = scale.clamp(2, 65535);
            s.durations = vec![100; nf];
            let nl = s.layers.len();
            let want = 0xFFFFusize;
            let _ = nl;
            s.cels.clear();
            if s.fmt == Fmt::Indexed && s.palette.is_none() && s.legacy.is_none() {
                s.palette = Some(PaletteSpec {
                    first: 0,
                    entries: vec![([0, 0, 0, 255], None)],
                });
            }
            // scale % 3: a cel in every frame / only in the first / only in the last frame (the
            // other frames are then empty: 16 bytes each, the cheapest way to declare a frame)
            let which: Vec<usize> = match scale % 3 {
                0 => (0..nf).collect(),
                1 => vec![0],
                _ => vec![nf - 1],
            };
            for f in which {
                s.cels.push(CelSpec {
                    frame: f as u16,
                    layer: want as u16,
                    x: 0,
                    y: 0,
                    opacity: 255,
                    body: CelBody::Linked(0),
                    ud: None,
                    extra: false,
                });
            }
            s.tags.clear();
            s.tag_ud_count = 0;
            format!("{} frames, {} with a cel on layer 65535", nf, ["each", "the first", "the last"][scale % 3])
        }
        "many-tags" => {
            let n = scale.clamp(2, 65535);
            s.tags = (0..n)
                .map(|_| TagSpec {
                    from: 0,
                    to: 0,
                    dir: 0,
                    repeat: 0,
                    name: String::new(),
                    ud: None,
                })
                .collect();
            s.tag_ud_count = n;
            format!("{} tags with user data", n)
        }
        "palette-huge-range" => {
            let p = s.palette.get_or_insert(PaletteSpec {
                first: 0,
                entries: vec![([0, 0, 0, 255], None)],
            });
            let _ = p;
            "palette first..last huge (applied on bytes)".into()
        }
        "ext-files-huge-count" => {
            if s.ext_files.is_empty() {
                s.ext_files.push((1, 0, "x".into()));
            }
            "external files entry count huge (applied on bytes)".into()
        }
        "tilemap-bits" => {
            let i = ensure_tilemap(s, r);
            let empty = r.chance(1, 3);
            if let CelBody::Tilemap { bits, tiles, .. } = &mut s.cels[i].body {
                *bits = *r.pick(&[8u16, 16, 0, 0, 64]);
                if empty {
                    tiles.clear();
                }
            }
            format!("tilemap bits per tile != 32{}", if empty { ", with an empty tile payload" } else { "" })
        }
        "frames-more-than-present" => {
            let n = s.durations.len() as u16;
            s.header_frames_override = Some(n + 1 + r.below(3) as u16);
            "header declares more frames than present".into()
        }
        "tilemap-neg-offset-extreme" => {
            let i = ensure_tilemap(s, r);
            s.cels[i].x = *r.pick(&[-32768i16, 32767, -1, 1]);
            s.cels[i].y = *r.pick(&[-32768i16, 32767, -1, 1]);
            format!("tilemap cel at ({},{})", s.cels[i].x, s.cels[i].y)
        }
        "gray-odd-bytes" => {
            let i = ensure_raw(s, r);
            if let CelBody::Raw { pixels, .. } = &mut s.cels[i].body {
                pixels.push(1);
            }
            "pixel payload with a stray byte".into()
        }
        "empty-cel" if r.chance(1, 2) => {
            // a tilemap cel with a zero dimension and, consistently, no tiles
            let i = ensure_tilemap(s, r);
            if let CelBody::Tilemap { w, h, tiles, .. } = &mut s.cels[i].body {
                match r.below(3) {
                    0 => *w = 0,
                    1 => *h = 0,
                    _ => {
                        *w = 0;
                        *h = 0
                    }
                }
                tiles.clear();
                format!("tilemap cel {}x{} with no tiles", w, h)
            } else {
                String::new()
            }
        }
        "empty-cel" => {
            let i = ensure_raw(s, r);
            if let CelBody::Raw { w, h, pixels, .. } = &mut s.cels[i].body {
                if r.chance(1, 2) {
                    *w = 0
                } else {
                    *h = 0
                }
                pixels.clear();
            }
            "cel with a zero dimension".into()
        }
        "tilemap-huge-extent" => {
            // a tilemap whose extent in pixels exceeds i32: 32770 tiles x 65535 px
            let horizontal = r.chance(1, 2);
            s.tilesets.clear();
            s.layers.retain(|l| l.kind != 2);
            let keep: Vec<u16> = (0..s.layers.len() as u16).collect();
            s.cels.retain(|c| keep.contains(&c.layer) && !matches!(c.body, CelBody::Tilemap { .. }));
            let dom = {
                let d = index_domain(s);
                if d.is_empty() {
                    vec![0]
                } else {
                    d
                }
            };
            let px = if s.fmt == Fmt::Indexed { vec![dom[0]; 2 * 65535] } else { vec![7u8; 2 * 65535 * bpp] };
            s.tilesets.push(TilesetSpec {
                id: 0,
                flags: 6,
                count: 2,
                tw: if horizontal { 65535 } else { 1 },
                th: if horizontal { 1 } else { 65535 },
                base_index: 1,
                name: "wide".into(),
                pixels: px,
                level: 9,
                ext: (0, 0),
            });
            let li = s.layers.len();
            s.layers.push(LayerSpec {
                flags: 1,
                kind: 2,
                tileset: 0,
                level: 0,
                blend: 0,
                opacity: 255,
                name: "huge".into(),
                ud: None,
            });
            s.cels.push(CelSpec {
                frame: 0,
                layer: li as u16,
                x: 0,
                y: 0,
                opacity: 255,
                body: CelBody::Tilemap {
                    w: if horizontal { 32770 } else { 1 },
                    h: if horizontal { 1 } else { 32770 },
                    bits: 32,
                    masks: [0x1fff_ffff, 0x8000_0000, 0x4000_0000, 0x2000_0000],
                    tiles: vec![1; 32770],
                    level: 9,
                },
                ud: None,
                extra: false,
            });
            format!("tilemap of 32770 tiles of 65535 px ({})", if horizontal { "horizontal" } else { "vertical" })
        }
        "link-chain" => {
            // very long chains / cycles of linked cels over `scale` frames
            let n = scale.clamp(3, 65535);
            s.durations = vec![100; n];
            s.tags.clear();
            s.tag_ud_count = 0;
            for sl in &mut s.slices {
                sl.keys.clear();
            }
            s.cels.clear();
            let li = match s.layers.iter().position(|l| l.kind == 0) {
                Some(i) => i,
                None => {
                    s.layers.push(LayerSpec {
                        flags: 1,
                        kind: 0,
                        tileset: 0,
                        level: 0,
                        blend: 0,
                        opacity: 255,
                        name: "img".into(),
                        ud: None,
                    });
                    s.layers.len() - 1
                }
            } as u16;
            if s.fmt == Fmt::Indexed && s.palette.is_none() && s.legacy.is_none() {
                s.palette = Some(PaletteSpec {
                    first: 0,
                    entries: vec![([0, 0, 0, 255], None)],
                });
            }
            let px = if s.fmt == Fmt::Indexed {
                vec![*index_domain(s).first().unwrap_or(&0)]
            } else {
                vec![5; bpp]
            };
            let raw = |frame: u16| CelSpec {
                frame,
                layer: li,
                x: 0,
                y: 0,
                opacity: 255,
                body: CelBody::Raw {
                    w: 1,
                    h: 1,
                    pixels: px.clone(),
                    compressed: false,
                    level: 0,
                },
                ud: None,
                extra: false,
            };
            let link = |frame: u16, to: u16| CelSpec {
                frame,
                layer: li,
                x: 0,
                y: 0,
                opacity: 255,
                body: CelBody::Linked(to),
                ud: None,
                extra: false,
            };
            // the pattern is part of the scenario's size parameter (scale mod 4), so that a job
            // lists every pattern explicitly instead of hoping to draw it
            let variant = (scale % 6) as u64;
            match variant {
                0 => {
                    // forward chain: k -> k+1, last raw
                    for k in 0..n - 1 {
                        s.cels.push(link(k as u16, k as u16 + 1));
                    }
                    s.cels.push(raw(n as u16 - 1));
                }
                1 => {
                    // backward chain: first raw, k -> k-1
                    s.cels.push(raw(0));
                    for k in 1..n {
                        s.cels.push(link(k as u16, k as u16 - 1));
                    }
                }
                2 => {
                    // two-cel cycle in a sprite with many (empty) frames
                    s.cels.push(link(0, 1));
                    s.cels.push(link(1, 0));
                }
                4 => {
                    // a tail that runs into a self-link: 0 -> 1 -> ... -> k -> k (the loop does
                    // not contain the start)
                    let k = (n - 1).min(2 + r.usize_below(40));
                    for f in 0..k {
                        s.cels.push(link(f as u16, f as u16 + 1));
                    }
                    s.cels.push(link(k as u16, k as u16));
                }
                5 => {
                    // rho shape: 0 -> 1 -> 2 -> ... -> k -> j with 0 < j < k
                    let k = (n - 1).min(3 + r.usize_below(40));
                    for f in 0..k {
                        s.cels.push(link(f as u16, f as u16 + 1));
                    }
                    let j = 1 + r.usize_below(k - 1);
                    s.cels.push(link(k as u16, j as u16));
                }
                _ => {
                    // every frame links to the raw frame 0 (well-formed, very long)
                    s.cels.push(raw(0));
                    for k in 1..n {
                        s.cels.push(link(k as u16, 0));
                    }
                }
            }
            format!("{} frames, linked-cel pattern {}", n, ["forward chain", "backward chain", "two-cel cycle", "all link to frame 0", "tail into a self-link", "rho-shaped chain"][variant as usize])
        }
        "sparse-palette-gap" => {
            // indexed sprite whose (legacy, multi-packet) palette has gaps; one pixel in a gap
            s.fmt = Fmt::Indexed;
            s.palette = None;
            s.sprite_ud = None;
            let ty = if r.chance(1, 2) { 0x0004 } else { 0x0011 };
            // the library does not add a packet's count to the running skip, so a packet's
            // range is [sum of skips so far, + count)
            let mut packets: Vec<(u8, Vec<[u8; 3]>)> = Vec::new();
            let mut have = std::collections::BTreeSet::new();
            let mut start = 0u32;
            let np = 2 + r.usize_below(3);
            for i in 0..np {
                let skip = if i == 0 { 0 } else { 1 + r.below(6) as u8 };
                start += skip as u32;
                let cnt = 1 + r.usize_below(3);
                for k in 0..cnt as u32 {
                    have.insert(start + k);
                }
                packets.push((skip, (0..cnt).map(|_| [r.below(64) as u8, 9, 9]).collect()));
            }
            s.legacy = Some((ty, packets));
            let dom: Vec<u8> = have.iter().filter(|x| **x < 256).map(|x| *x as u8).collect();
            let maxid = *have.iter().max().unwrap();
            let gaps: Vec<u8> = (0..maxid.min(255)).filter(|x| !have.contains(x)).map(|x| x as u8).collect();
            for c in &mut s.cels {
                if let CelBody::Raw { w, h, pixels: p, .. } = &mut c.body {
                    *p = pixels(r, Fmt::Indexed, *w as usize * *h as usize, &dom);
                }
            }
            for t in &mut s.tilesets {
                t.pixels = pixels(r, Fmt::Indexed, t.count as usize * t.tw as usize * t.th as usize, &dom);
            }
            let poison = r.chance(3, 4) && !gaps.is_empty();
            let mut bad = None;
            if poison {
                let b = *r.pick(&gaps);
                bad = Some(b);
                let i = ensure_raw(s, r);
                if let CelBody::Raw { pixels: p, w, h, .. } = &mut s.cels[i].body {
                    *p = pixels(r, Fmt::Indexed, *w as usize * *h as usize, &dom);
                    let k = r.usize_below(p.len());
                    p[k] = b;
                }
            }
            format!("palette ids {:?}, pixel in gap: {:?}", have, bad)
        }
        "bomb-with-links" | "tilemap-bomb-with-links" => {
            // one big, highly compressible, truthfully declared cel and many cels linked to it
            let side = (scale.clamp(1, 128) * 64) as u16;
            let nlinks = 48usize;
            if scale >= 64 {
                // the dedicated "well above 64 MiB" image: 4 bytes per pixel whatever the seed drew
                s.fmt = Fmt::Rgba;
                s.tilesets.clear();
                for l in &mut s.layers {
                    if l.kind == 2 {
                        l.kind = 0;
                    }
                }
            }
            let bpp = s.fmt.bpp();
            s.durations = vec![100; nlinks + 1];
            s.tags.clear();
            s.tag_ud_count = 0;
            for sl in &mut s.slices {
                sl.keys.clear();
            }
            s.cels.clear();
            s.width = side;
            s.height = side;
            let li = match s.layers.iter().position(|l| l.kind == 0) {
                Some(i) => i,
                None => {
                    s.layers.push(LayerSpec {
                        flags: 1,
                        kind: 0,
                        tileset: 0,
                        level: 0,
                        blend: 0,
                        opacity: 255,
                        name: "img".into(),
                        ud: None,
                    });
                    s.layers.len() - 1
                }
            } as u16;
            if s.fmt == Fmt::Indexed && s.palette.is_none() && s.legacy.is_none() {
                s.palette = Some(PaletteSpec {
                    first: 0,
                    entries: vec![([0, 0, 0, 255], None)],
                });
            }
            let v = if s.fmt == Fmt::Indexed { *index_domain(s).first().unwrap_or(&0) } else { 0 };
            let as_tilemap = bug == "tilemap-bomb-with-links" || (scale < 64 && r.chance(1, 3));
            let li = if as_tilemap {
                // the big compressible thing is a tile grid on a tilemap layer instead of an image
                if s.tilesets.is_empty() {
                    s.tilesets.push(TilesetSpec {
                        id: 0,
                        flags: 6,
                        count: 2,
                        tw: 1,
                        th: 1,
                        base_index: 1,
                        name: "t".into(),
                        pixels: vec![v; 2 * bpp],
                        level: 6,
                        ext: (0, 0),
                    });
                }
                let tsid = s.tilesets[0].id;
                s.layers.push(LayerSpec {
                    flags: 1,
                    kind: 2,
                    tileset: tsid,
                    level: 0,
                    blend: 0,
                    opacity: 255,
                    name: "grid".into(),
                    ud: None,
                });
                (s.layers.len() - 1) as u16
            } else {
                li
            };
            s.cels.push(CelSpec {
                frame: 0,
                layer: li,
                x: 0,
                y: 0,
                opacity: 255,
                body: if as_tilemap {
                    CelBody::Tilemap {
                        w: side,
                        h: side,
                        bits: 32,
                        masks: [0x1fff_ffff, 0x8000_0000, 0x4000_0000, 0x2000_0000],
                        tiles: vec![1; side as usize * side as usize],
                        level: 9,
                    }
                } else {
                    CelBody::Raw {
                        w: side,
                        h: side,
                        pixels: vec![v; side as usize * side as usize * bpp],
                        compressed: true,
                        level: 9,
                    }
                },
                ud: None,
                extra: false,
            });
            for k in 1..=nlinks {
                s.cels.push(CelSpec {
                    frame: k as u16,
                    layer: li,
                    x: 0,
                    y: 0,
                    opacity: 255,
                    body: CelBody::Linked(0),
                    ud: None,
                    extra: false,
                });
            }
            format!("{}x{} compressible cel + {} linked cels", side, side, nlinks)
        }
        "link-to-tilemap" => {
            // a linked cel whose target is a tilemap cel (same tilemap layer, another frame)
            let i = ensure_tilemap(s, r);
            let (layer, tf) = (s.cels[i].layer, s.cels[i].frame);
            if s.durations.len() < 2 {
                s.durations.push(100);
            }
            let nf = s.durations.len() as u16;
            let free = (0..nf).find(|f| *f != tf && !s.cels.iter().any(|c| c.layer == layer && c.frame == *f));
            let f = match free {
                Some(f) => f,
                None => {
                    s.durations.push(100);
                    nf
                }
            };
            s.cels.push(CelSpec {
                frame: f,
                layer,
                x: 0,
                y: 0,
                opacity: 255,
                body: CelBody::Linked(tf),
                ud: None,
                extra: false,
            });
            format!("cel (f{},l{}) linked to the tilemap cel of frame {}", f, layer, tf)
        }
        "many-palette-packets" => {
            // a long, well-formed legacy palette: `scale` packets with large skips
            let n = scale.clamp(2, 65535);
            if s.fmt == Fmt::Indexed {
                s.fmt = Fmt::Rgba;
                for c in &mut s.cels {
                    if let CelBody::Raw { w, h, pixels: p, .. } = &mut c.body {
                        *p = vec![3; *w as usize * *h as usize * 4];
                    }
                }
                for t in &mut s.tilesets {
                    t.pixels = vec![3; t.count as usize * t.tw as usize * t.th as usize * 4];
                }
            }
            s.palette = None;
            let ty = if r.chance(1, 2) { 0x0004 } else { 0x0011 };
            let skip = *r.pick(&[255u8, 255, 200, 40, 1]);
            let packets = (0..n).map(|_| (skip, vec![[1u8, 2, 3]])).collect();
            s.legacy = Some((ty, packets));
            format!("{} legacy palette packets with skip {}", n, skip)
        }
        "chunk-size-boundary" => "one chunk padded to a boundary payload size (applied on bytes)".into(),
        "zlib-split-a" | "zlib-split-b" => {
            // One compressed image delivered in two files: file A's stream stops between two
            // deflate blocks, file B's "stream" is the remainder. Each alone is invalid; a decoder
            // whose state survives a failed load may accept B after A.
            let i = ensure_raw(s, r);
            if let CelBody::Raw { w, h, pixels, .. } = &s.cels[i].body {
                let (z, starts) = zlib_stored_blocks(pixels, 24);
                let cut = if starts.len() >= 2 { starts[starts.len() / 2] } else { z.len() / 2 };
                let part: Vec<u8> = if bug == "zlib-split-a" { z[..cut].to_vec() } else { z[cut..].to_vec() };
                let mut body = Vec::new();
                body.extend_from_slice(&w.to_le_bytes());
                body.extend_from_slice(&h.to_le_bytes());
                body.extend_from_slice(&part);
                s.cels[i].body = CelBody::Opaque { cel_type: 2, body };
            }
            format!("{} half of a zlib stream cut between two deflate blocks", if bug == "zlib-split-a" { "first" } else { "second" })
        }
        "palette-shift-a" | "palette-shift-b" => {
            // Two indexed files with palettes of the same size but different index ranges; the
            // pixels of both use A's range, so B alone is invalid. Anything remembered about "the
            // palette" across loads (validity tables, lookups keyed by address or size) lets B in.
            s.fmt = Fmt::Indexed;
            s.legacy = None;
            s.sprite_ud = None;
            s.tilesets.clear();
            for l in &mut s.layers {
                if l.kind == 2 {
                    l.kind = 0;
                }
            }
            s.cels.retain(|c| !matches!(c.body, CelBody::Tilemap { .. }));
            let n = 4usize;
            let first = if bug == "palette-shift-a" { 0 } else { n as u32 };
            s.palette = Some(PaletteSpec {
                first,
                entries: (0..n).map(|i| ([i as u8 * 50, 9, 200, 255], None)).collect(),
            });
            s.transparent = 200;
            let dom_a: Vec<u8> = (0..n as u8).collect();
            for c in &mut s.cels {
                if let CelBody::Raw { w, h, pixels: p, .. } = &mut c.body {
                    *p = pixels(r, Fmt::Indexed, *w as usize * *h as usize, &dom_a);
                }
            }
            let i = ensure_raw(s, r);
            if let CelBody::Raw { w, h, pixels: p, .. } = &mut s.cels[i].body {
                *p = pixels(r, Fmt::Indexed, *w as usize * *h as usize, &dom_a);
            }
            format!("palette {}..={} with pixel values 0..={}", first, first as usize + n - 1, n - 1)
        }
        "color-profile-icc" => {
            s.color_profile = Some(*r.pick(&[2u16, 2, 3, 0xFFFF]));
            "colour profile of ICC / unknown type (ICC payload applied on bytes)".into()
        }
        "indexed-bomb-missing-index" => {
            // an indexed image of `scale` Mi pixels, truthfully declared, every pixel an index the
            // palette does not have: rejected on the first pixel by a loader that checks as it goes;
            // anything that first collects per-pixel diagnostics pays per pixel
            s.fmt = Fmt::Indexed;
            s.legacy = None;
            s.sprite_ud = None;
            s.tilesets.clear();
            for l in &mut s.layers {
                if l.kind == 2 {
                    l.kind = 0;
                }
            }
            s.cels.clear();
            s.palette = Some(PaletteSpec {
                first: 0,
                entries: (0..8).map(|i| ([i * 30, 1, 2, 255], None)).collect(),
            });
            let li = match s.layers.iter().position(|l| l.kind == 0) {
                Some(i) => i,
                None => {
                    s.layers[0].kind = 0;
                    0
                }
            } as u16;
            let px = scale.max(1) << 20;
            let w = 4096u16;
            let h = (px / 4096).clamp(1, 65535) as u16;
            s.cels.push(CelSpec {
                frame: 0,
                layer: li,
                x: 0,
                y: 0,
                opacity: 255,
                body: CelBody::Raw {
                    w,
                    h,
                    pixels: vec![200u8; w as usize * h as usize],
                    compressed: true,
                    level: 9,
                },
                ud: None,
                extra: false,
            });
            format!("{}x{} indexed cel of index 200 with an 8-entry palette", w, h)
        }
        "tileset-bomb" => {
            // millions of tiny tiles, truthfully declared, compressing to a few KB: anything kept
            // per tile at load time costs far more than the tile's bytes
            let count = (scale.max(1) as u32) << 20;
            let (tw, th) = *r.pick(&[(1u16, 1u16), (1, 1), (2, 1), (2, 2)]);
            let count = count / (tw as u32 * th as u32);
            let v = if s.fmt == Fmt::Indexed { *index_domain(s).first().unwrap_or(&0) } else { 0 };
            s.tilesets.clear();
            for l in &mut s.layers {
                if l.kind == 2 {
                    l.kind = 0;
                }
            }
            s.cels.retain(|c| !matches!(c.body, CelBody::Tilemap { .. }));
            s.tilesets.push(TilesetSpec {
                id: 0,
                flags: 6,
                count,
                tw,
                th,
                base_index: 1,
                name: "many".into(),
                pixels: vec![v; count as usize * tw as usize * th as usize * bpp],
                level: 9,
                ext: (0, 0),
            });
            format!("tileset of {} tiles of {}x{}", count, tw, th)
        }
        "tags-in-later-frame" => {
            if s.durations.len() < 2 {
                s.durations.push(100);
            }
            "a tags chunk (0..3 tags) followed by user data in a frame other than the first (applied on bytes)".into()
        }
        "bomb-plus-error" => {
            // a large, consistent, highly compressible cel (image or tile grid) **plus** one flaw that
            // is only noticed after the payload was decoded: what the loader does with the decoded
            // data on its error path (formatting it, collecting offenders, cloning it) is then
            // charged to a file of a few kilobytes
            let first = if scale % 2 == 0 { "bomb-with-links" } else { "tilemap-bomb-with-links" };
            let d1 = apply_bug(s, first, r, (scale / 2).clamp(8, 40));
            let second = if first == "bomb-with-links" {
                *r.pick(&["cel-on-group", "indexed-pixel-oob", "link-bad-frame", "link-to-missing", "cel-layer-oob", "first-layer-child", "level-jump", "raw-cel-on-tilemap-layer"])
            } else {
                *r.pick(&["tilemap-cel-on-image-layer", "tilemap-cel-on-image-layer", "layer-missing-tileset", "tile-id-oob", "link-bad-frame", "cel-layer-oob", "tileset-pixels-short", "tile-size-zero"])
            };
            let d2 = apply_bug(s, second, r, 1);
            format!("{} ; then {} ({})", d1, second, d2)
        }
        "userdata-props-deep" => {
            // Aseprite 1.3 property maps are a recursive structure (vectors of vectors, maps in
            // maps): `scale` levels at 6..9 bytes per level, attached to the first layer
            let depth = scale.max(1);
            let mut m: Vec<u8> = Vec::new();
            m.extend_from_slice(&1u32.to_le_bytes()); // number of maps
            m.extend_from_slice(&0u32.to_le_bytes()); // map key: user properties
            m.extend_from_slice(&1u32.to_le_bytes()); // one property
            m.extend_from_slice(&1u16.to_le_bytes());
            m.push(b'p');
            let shape = scale % 3;
            match shape {
                0 => {
                    // vector whose element type is vector, ...
                    m.extend_from_slice(&0x11u16.to_le_bytes());
                    for _ in 0..depth {
                        m.extend_from_slice(&1u32.to_le_bytes());
                        m.extend_from_slice(&0x11u16.to_le_bytes());
                    }
                    m.extend_from_slice(&0u32.to_le_bytes());
                    m.extend_from_slice(&1u16.to_le_bytes());
                }
                1 => {
                    // nested property maps
                    m.extend_from_slice(&0x12u16.to_le_bytes());
                    for _ in 0..depth {
                        m.extend_from_slice(&1u32.to_le_bytes());
                        m.extend_from_slice(&1u16.to_le_bytes());
                        m.push(b'q');
                        m.extend_from_slice(&0x12u16.to_le_bytes());
                    }
                    m.extend_from_slice(&0u32.to_le_bytes());
                }
                _ => {
                    // vectors of mixed element type (0): every element names its own type
                    m.extend_from_slice(&0x11u16.to_le_bytes());
                    for _ in 0..depth {
                        m.extend_from_slice(&1u32.to_le_bytes());
                        m.extend_from_slice(&0u16.to_le_bytes());
                        m.extend_from_slice(&0x11u16.to_le_bytes());
                    }
                    m.extend_from_slice(&0u32.to_le_bytes());
                    m.extend_from_slice(&1u16.to_le_bytes());
                }
            }
            let mut blob = Vec::new();
            blob.extend_from_slice(&((m.len() + 4) as u32).to_le_bytes());
            blob.extend_from_slice(&m);
            let text = if r.chance(1, 2) { Some("t".to_string()) } else { None };
            s.layers[0].ud = Some(UserData { text, color: None, props: Some(blob) });
            format!("user data property map nested {} deep (shape {})", depth, shape)
        }
        "dangling-user-data" => {
            // user data in a file with no preceding attachable entity
            s.layers[0].ud = None;
            "user data before any entity (applied on chunk order)".into()
        }
        _ => format!("unknown bug {}", bug),
    }
}

/// Encode and then apply the bugs that are easier to express on bytes.
pub fn encode_with_bug(s: &SpriteSpec, opts: &EncOpts, bug: Option<&str>, r: &mut Rng) -> Vec<u8> {
    let mut bytes = encode(s, opts);
    let Some(bug) = bug else { return bytes };
    let m = crate::format::walk(&bytes);
    match bug {
        "palette-huge-range" => {
            if let Some(f) = m.fields.iter().find(|f| f.chunk == "palette" && f.name == "last") {
                let v = *r.pick(&[0xFFFF_FFFFu32, 0x7FFF_FFFF, 0x00FF_FFFF, 0x0001_0000]);
                crate::format::put32(&mut bytes, f.off, v);
                if r.chance(1, 2) {
                    crate::format::put32(&mut bytes, f.off - 4, 0);
                }
            }
        }
        "ext-files-huge-count" => {
            if let Some(f) = m.fields.iter().find(|f| f.chunk == "extfiles" && f.name == "entries") {
                let v = *r.pick(&[0xFFFF_FFFFu32, 0x7FFF_FFFF, 0x1000_0000, 0x0010_0000]);
                crate::format::put32(&mut bytes, f.off, v);
            }
        }
        "chunk-size-boundary" => {
            // pad one chunk (extra bytes at a chunk's end are legal and ignored) so that its
            // payload has exactly a boundary size
            if !m.chunks.is_empty() {
                let ci = r.usize_below(m.chunks.len());
                let c = &m.chunks[ci];
                let k = 8 + r.below(10) as u32; // 2^8 .. 2^17
                let target = match r.below(6) {
                    0 => (1usize << k) - 1,
                    1 => 1usize << k,
                    2 => (1usize << k) + 1,
                    3 => 65536 * (1 + r.usize_below(3)),
                    4 => 65536 * (1 + r.usize_below(3)) + *r.pick(&[6usize, 5, 7]),
                    _ => 65536 - 6,
                };
                let payload = c.size - 6;
                if target > payload {
                    let pad = target - payload;
                    let at = c.off + c.size;
                    let (fstart, _) = m.frames[c.frame];
                    let fill = r.byte();
                    let tail = bytes.split_off(at);
                    bytes.extend(std::iter::repeat(fill).take(pad));
                    bytes.extend_from_slice(&tail);
                    let csz = crate::format::get(&bytes, c.off, 4) as u32 + pad as u32;
                    crate::format::put32(&mut bytes, c.off, csz);
                    let fsz = crate::format::get(&bytes, fstart, 4) as u32 + pad as u32;
                    crate::format::put32(&mut bytes, fstart, fsz);
                    let total = bytes.len() as u32;
                    crate::format::put32(&mut bytes, 0, total);
                }
            }
        }
        "color-profile-icc" => {
            // append "ICC length + data" to the colour profile chunk, sometimes with the fixed-gamma flag
            if let Some(c) = m.chunks.iter().find(|c| c.ctype == 0x2007) {
                let n = *r.pick(&[0usize, 1, 16, 300]);
                let lie = r.chance(1, 3);
                let mut ins = Vec::new();
                ins.extend_from_slice(&(if lie { 0xFFFF_FFFFu32 } else { n as u32 }).to_le_bytes());
                ins.extend(std::iter::repeat(0xABu8).take(n));
                if n >= 4 {
                    // a real ICC profile begins with its own size, big-endian
                    let k = ins.len() - n;
                    ins[k..k + 4].copy_from_slice(&(n as u32).to_be_bytes());
                }
                let at = c.off + c.size;
                let (fstart, _) = m.frames[c.frame];
                let tail = bytes.split_off(at);
                bytes.extend_from_slice(&ins);
                bytes.extend_from_slice(&tail);
                let csz = crate::format::get(&bytes, c.off, 4) as u32 + ins.len() as u32;
                crate::format::put32(&mut bytes, c.off, csz);
                let fsz = crate::format::get(&bytes, fstart, 4) as u32 + ins.len() as u32;
                crate::format::put32(&mut bytes, fstart, fsz);
                let total = bytes.len() as u32;
                crate::format::put32(&mut bytes, 0, total);
                if r.chance(1, 3) {
                    crate::format::put16(&mut bytes, c.off + 8, 1); // fixed gamma flag
                }
            }
        }
        "tags-in-later-frame" => {
            // other editors and hand-written exporters put tags chunks anywhere; the count may be 0
            if m.frames.len() >= 2 {
                let fi = 1 + r.usize_below(m.frames.len() - 1);
                let ntags = r.below(4) as u16;
                let mut ins = Vec::new();
                let mut body = Vec::new();
                body.extend_from_slice(&ntags.to_le_bytes());
                body.extend_from_slice(&[0u8; 8]);
                for _ in 0..ntags {
                    body.extend_from_slice(&[0, 0, 0, 0, 0, 0, 0]);
                    body.extend_from_slice(&[0u8; 6]);
                    body.extend_from_slice(&[1, 2, 3, 0]);
                    body.extend_from_slice(&1u16.to_le_bytes());
                    body.push(b't');
                }
                ins.extend_from_slice(&((6 + body.len()) as u32).to_le_bytes());
                ins.extend_from_slice(&0x2018u16.to_le_bytes());
                ins.extend_from_slice(&body);
                let nud = r.below(4) as u32;
                for _ in 0..nud {
                    ins.extend_from_slice(&13u32.to_le_bytes());
                    ins.extend_from_slice(&0x2020u16.to_le_bytes());
                    ins.extend_from_slice(&1u32.to_le_bytes());
                    ins.extend_from_slice(&1u16.to_le_bytes());
                    ins.push(b'u');
                }
                // position: start, middle or end of that frame's chunk list
                let in_frame: Vec<&crate::format::ChunkInfo> = m.chunks.iter().filter(|c| c.frame == fi).collect();
                let at = if in_frame.is_empty() || r.chance(1, 3) {
                    m.frames[fi].1
                } else {
                    in_frame[r.usize_below(in_frame.len())].off
                };
                let at = at.max(m.frames[fi].0 + 16);
                insert_chunks(&mut bytes, &m, at, &ins, 1 + nud);
            }
        }
        "tag-ud-overflow" | "dangling-user-data" => {
            // insert a user-data chunk: after the tags' records, or as the very first chunk
            let ud = {
                let mut b = Vec::new();
                b.extend_from_slice(&13u32.to_le_bytes());
                b.extend_from_slice(&0x2020u16.to_le_bytes());
                b.extend_from_slice(&1u32.to_le_bytes());
                b.extend_from_slice(&1u16.to_le_bytes());
                b.push(b'z');
                b
            };
            let at = if bug == "dangling-user-data" {
                m.chunks.first().map(|c| c.off)
            } else {
                // after the last user data following the tags chunk
                let ti = m.chunks.iter().position(|c| c.ctype == 0x2018);
                ti.map(|ti| {
                    let mut k = ti + 1;
                    while k < m.chunks.len() && m.chunks[k].ctype == 0x2020 && m.chunks[k].frame == 0 {
                        k += 1;
                    }
                    if k < m.chunks.len() && m.chunks[k].frame == 0 {
                        m.chunks[k].off
                    } else {
                        m.frames[0].1
                    }
                })
            };
            if let Some(at) = at {
                if bug == "tag-ud-overflow" {
                    // need (#tags - existing + 1) records to overflow
                    let ti = m.chunks.iter().position(|c| c.ctype == 0x2018).unwrap();
                    let ntags = crate::format::get(&bytes, m.chunks[ti].off + 6, 2) as usize;
                    let mut existing = 0;
                    let mut k = ti + 1;
                    while k < m.chunks.len() && m.chunks[k].ctype == 0x2020 {
                        existing += 1;
                        k += 1;
                    }
                    let need = ntags + 1 - existing.min(ntags);
                    let mut ins = Vec::new();
                    for _ in 0..need {
                        ins.extend_from_slice(&ud);
                    }
                    insert_chunks(&mut bytes, &m, at, &ins, need as u32);
                } else {
                    insert_chunks(&mut bytes, &m, at, &ud, 1);
                }
            }
        }
        _ => {}
    }
    bytes
}

/// Insert pre-encoded chunks at byte offset `at` (inside frame 0) and fix up frame size, chunk
/// counts and file size.
pub fn insert_chunks(bytes: &mut Vec<u8>, m: &crate::format::Map, at: usize, ins: &[u8], n: u32) {
    let fi = m
        .frames
        .iter()
        .position(|(s, e)| at > *s && at <= *e)
        .unwrap_or(0);
    let fstart = m.frames[fi].0;
    let tail = bytes.split_off(at);
    bytes.extend_from_slice(ins);
    bytes.extend_from_slice(&tail);
    let fsz = crate::format::get(bytes, fstart, 4) as u32 + ins.len() as u32;
    crate::format::put32(bytes, fstart, fsz);
    let old = crate::format::get(bytes, fstart + 6, 2) as u32;
    let new = crate::format::get(bytes, fstart + 12, 4) as u32;
    if new != 0 {
        crate::format::put32(bytes, fstart + 12, new + n);
        if old != 0xFFFF && old == new {
            crate::format::put16(bytes, fstart + 6, (old + n).min(0xFFFF) as u16);
        }
    } else {
        crate::format::put16(bytes, fstart + 6, (old + n).min(0xFFFF) as u16);
    }
    let total = bytes.len() as u32;
    crate::format::put32(bytes, 0, total);
}
