//! Execute one `Plan` against the real library and evaluate the property's oracle.

use crate::alloc;
use crate::format::{self, Map};
use crate::observe::{self, Costs, Op, OpOutcome};
use crate::plan::{normalise, Plan, Violation, Workload, Wrapper};
use crate::rng::{Digest, Rng};
use crate::simreader::{ReadStats, ReaderPlan, SimReader, MEM_BASE, MEM_PER_BYTE};
use asefile::{AsepriteFile, AsepriteParseError};
use std::cell::RefCell;
use std::io::{BufReader, Cursor, Read};
use std::panic::{catch_unwind, AssertUnwindSafe};

thread_local! {
    static LAST_PANIC: RefCell<Option<(String, String)>> = const { RefCell::new(None) };
}

pub fn install_panic_hook() {
    std::panic::set_hook(Box::new(|info| {
        let _p = alloc::pause();
        let loc = info
            .location()
            .map(|l| format!("{}:{}", l.file(), l.line()))
            .unwrap_or_else(|| "?".into());
        let msg = if let Some(s) = info.payload().downcast_ref::<&str>() {
            s.to_string()
        } else if let Some(s) = info.payload().downcast_ref::<String>() {
            s.clone()
        } else {
            "<non-string panic>".into()
        };
        let _ = LAST_PANIC.try_with(|p| *p.borrow_mut() = Some((loc, msg)));
    }));
}

pub static TRACE: std::sync::atomic::AtomicBool = std::sync::atomic::AtomicBool::new(false);

fn stage(s: &str) {
    if TRACE.load(std::sync::atomic::Ordering::Relaxed) {
        let _p = alloc::pause();
        eprintln!("STAGE {}", s);
    }
}

pub fn take_panic_pub() -> (String, String) {
    take_panic()
}

pub fn run_plan_inline(plan: &Plan, verbose: bool) -> Report {
    run_plan_here(plan, verbose)
}

/// Like `install_panic_hook` but also prints the message (for the Miri binary, where the
/// message is the report).
pub fn install_panic_hook_verbose() {
    std::panic::set_hook(Box::new(|info| {
        let loc = info.location().map(|l| format!("{}:{}", l.file(), l.line())).unwrap_or_default();
        let msg = if let Some(s) = info.payload().downcast_ref::<&str>() {
            s.to_string()
        } else if let Some(s) = info.payload().downcast_ref::<String>() {
            s.clone()
        } else {
            "<non-string panic>".into()
        };
        eprintln!("PANIC {} at {}", msg, loc);
        let _ = LAST_PANIC.try_with(|p| *p.borrow_mut() = Some((loc, msg)));
    }));
}

fn take_panic() -> (String, String) {
    LAST_PANIC
        .with(|p| p.borrow_mut().take())
        .unwrap_or(("?".into(), "?".into()))
}

/// Strip the path prefix so that signatures do not depend on where /repo is mounted
/// (scratch worktrees during sensitivity runs).
fn short_loc(loc: &str) -> String {
    match loc.rfind("/src/") {
        Some(i) => {
            let head = &loc[..i];
            // dependencies keep their crate directory name; the crate under test is always
            // "asefile" wherever its sources are mounted (scratch worktrees)
            let krate = if head.contains("/registry/") || head.contains("/rustc/") || head.contains("/rustlib/") {
                head.rsplit('/').next().unwrap_or("")
            } else {
                "asefile"
            };
            format!("{}{}", krate, &loc[i..])
        }
        None => loc.to_string(),
    }
}

pub const STACK: usize = 2 << 20;

pub fn machine_limit(len: usize) -> u64 {
    ((64u64 << 20) + 8192 * len as u64).max(4 << 30)
}

#[derive(Clone, Debug, Default)]
pub struct Facts {
    pub outcome: String, // "ok" | "err:<Variant>:<template>"
    pub loaded: bool,
    pub probes: Vec<String>,
    pub distinct: Vec<u64>,
    pub nontrivial: bool,
    pub reader: Option<ReadStats>,
    pub alloc_peak: u64,
    pub alloc_largest: u64,
    pub ops_done: u64,
    pub ops_skipped: u64,
    pub op_counts: Vec<(String, u64)>,
    pub evals: u64,
    pub digest: u64,
    pub sched_steps: u64,
    pub sample: Option<serde_json::Value>,
    pub mat_ops: Option<Vec<Op>>,
    pub mat_schedule: Option<Vec<u8>>,
}

pub struct Report {
    pub violation: Option<Violation>,
    pub facts: Facts,
}

pub fn err_class(e: &AsepriteParseError) -> String {
    match e {
        AsepriteParseError::InvalidInput(m) => format!("err:InvalidInput:{}", normalise(m)),
        AsepriteParseError::UnsupportedFeature(m) => format!("err:UnsupportedFeature:{}", normalise(m)),
        AsepriteParseError::InternalError(m) => format!("err:InternalError:{}", normalise(m)),
        AsepriteParseError::IoError(io) => format!("err:IoError:{:?}", io.kind()),
    }
}

pub struct Loaded {
    pub result: Result<AsepriteFile, AsepriteParseError>,
    pub rstats: Option<ReadStats>,
    pub consumed: usize,
    pub astats: alloc::Stats,
}

fn tmp_path(tag: &str) -> std::path::PathBuf {
    let dir = std::env::temp_dir().join(format!("asesim-{}", std::process::id()));
    let _ = std::fs::create_dir_all(&dir);
    dir.join(format!("{}-{:?}.aseprite", tag, std::thread::current().id()).replace(['(', ')'], ""))
}

pub fn cleanup_tmp() {
    let dir = std::env::temp_dir().join(format!("asesim-{}", std::process::id()));
    let _ = std::fs::remove_dir_all(dir);
}

/// Load `image` through the given seam. Panics propagate to the caller.
pub fn load(image: &[u8], wrapper: Wrapper, rp: &ReaderPlan, limit: Option<u64>, track_mem: bool, log: bool) -> (Loaded, Option<Vec<(u32, i64)>>) {
    let mut rstats = None;
    let mut consumed = 0usize;
    let mut rlog = None;
    let mk = |data, plan| {
        let mut s = SimReader::new(data, plan);
        if track_mem {
            s = s.track_mem();
        }
        if log {
            s = s.with_log();
        }
        s
    };
    let (result, astats) = match wrapper {
        Wrapper::Slice => {
            let mut s: &[u8] = image;
            let r = alloc::tracked(limit, None, || AsepriteFile::read(&mut s));
            consumed = image.len() - s.len();
            r
        }
        Wrapper::Cursor => {
            let mut c = Cursor::new(image.to_vec());
            let r = alloc::tracked(limit, None, || AsepriteFile::read(&mut c));
            consumed = c.position() as usize;
            r
        }
        Wrapper::Sim => {
            let mut s = mk(image, rp);
            let r = alloc::tracked(limit, None, || AsepriteFile::read(&mut s));
            consumed = s.consumed();
            rlog = s.log.take();
            rstats = Some(s.finish());
            r
        }
        Wrapper::BufSim(cap) => {
            let mut s = mk(image, rp);
            let r = {
                let b = BufReader::with_capacity(cap.max(1), &mut s);
                alloc::tracked(limit, None, || AsepriteFile::read(b))
            };
            consumed = s.consumed();
            rlog = s.log.take();
            rstats = Some(s.finish());
            r
        }
        Wrapper::TakeSim => {
            let mut s = mk(image, rp);
            let r = {
                let t = (&mut s).take(image.len() as u64);
                alloc::tracked(limit, None, || AsepriteFile::read(t))
            };
            consumed = s.consumed();
            rlog = s.log.take();
            rstats = Some(s.finish());
            r
        }
        Wrapper::ChainSim(split) => {
            let split = split.min(image.len());
            let mut rp2 = ReaderPlan {
                sizes: rp.sizes.clone(),
                eintr: rp
                    .eintr
                    .iter()
                    .filter(|(o, _)| *o as usize >= split)
                    .map(|(o, t)| (*o - split as u64, *t))
                    .collect(),
                error: rp.error.map(|(at, k, s)| (at.saturating_sub(split as u64), k, s)),
                vectored: rp.vectored,
            };
            rp2.eintr.sort();
            let head: &[u8] = &image[..split];
            let mut s = mk(&image[split..], &rp2);
            let r = {
                let c = head.chain(&mut s);
                alloc::tracked(limit, None, || AsepriteFile::read(c))
            };
            consumed = split + s.consumed();
            rlog = s.log.take();
            rstats = Some(s.finish());
            r
        }
        Wrapper::Fifo => {
            // A real OS pipe: the kernel decides the read sizes (short reads whenever the writer
            // is behind), the writer's close is the end of the stream. Event sizes are up to the
            // OS; the result must not depend on them.
            let path = tmp_path("fifo");
            let _ = std::fs::remove_file(&path);
            let cpath = std::ffi::CString::new(path.to_string_lossy().as_bytes()).unwrap();
            let rc = unsafe { libc::mkfifo(cpath.as_ptr(), 0o600) };
            assert!(rc == 0, "harness: mkfifo failed");
            let sizes: Vec<usize> = if rp.sizes.is_empty() { vec![usize::MAX] } else { rp.sizes.iter().map(|s| (*s).max(1) as usize).collect() };
            let r = std::thread::scope(|sc| {
                let p2 = path.clone();
                sc.spawn(move || {
                    use std::io::Write;
                    let _pz = alloc::pause();
                    if let Ok(mut w) = std::fs::OpenOptions::new().write(true).open(&p2) {
                        let mut off = 0;
                        let mut k = 0;
                        while off < image.len() {
                            let n = sizes[k % sizes.len()].min(image.len() - off);
                            k += 1;
                            if w.write_all(&image[off..off + n]).is_err() {
                                break; // reader went away (load already failed): EPIPE
                            }
                            let _ = w.flush();
                            off += n;
                            if k % 7 == 0 {
                                std::thread::yield_now();
                            }
                        }
                    }
                });
                alloc::tracked(limit, None, || AsepriteFile::read_file(&path))
            });
            let _ = std::fs::remove_file(&path);
            r
        }
        Wrapper::File | Wrapper::ReadFile => {
            let path = tmp_path("in");
            if wrapper == Wrapper::ReadFile && image.len() > 200 {
                // In-place update: the same path first holds (and is loaded as) a same-length
                // sibling that differs in one byte, then the real content. Whatever a loader
                // remembers about a path must not survive the rewrite.
                let _pz = alloc::pause();
                let mut sib = image.to_vec();
                let k = sib.len() - 1 - (sib.len() / 7);
                sib[k] ^= 0x01;
                let mut stamp = None;
                if std::fs::write(&path, &sib).is_ok() {
                    stamp = std::fs::metadata(&path).and_then(|m| m.modified()).ok();
                    let _ = catch_unwind(AssertUnwindSafe(|| AsepriteFile::read_file(&path).map(|_| ())));
                    let _ = take_panic();
                }
                std::fs::write(&path, image).expect("harness: cannot write temp file");
                // the rewrite happens within the file system's timestamp granularity (or the file
                // was restored with its old timestamp): same path, same length, same mtime
                if let Some(t) = stamp {
                    if let Ok(f) = std::fs::OpenOptions::new().write(true).open(&path) {
                        let _ = f.set_modified(t);
                    }
                }
            } else {
                std::fs::write(&path, image).expect("harness: cannot write temp file");
            }
            let r = if wrapper == Wrapper::File {
                let f = std::fs::File::open(&path).expect("harness: cannot open temp file");
                alloc::tracked(limit, None, || AsepriteFile::read(f))
            } else {
                // the same file reached in three ways (chosen by the content length, so a replay
                // takes the same one): its own path, a symbolic link, an open descriptor via procfs
                match image.len() % 3 {
                    1 => {
                        let link = std::path::PathBuf::from(format!("{}.lnk", path.display()));
                        let _ = std::fs::remove_file(&link);
                        let made = std::os::unix::fs::symlink(&path, &link).is_ok();
                        let target = if made { link.clone() } else { path.clone() };
                        let r = alloc::tracked(limit, None, || AsepriteFile::read_file(&target));
                        let _ = std::fs::remove_file(&link);
                        r
                    }
                    2 => {
                        use std::os::unix::io::AsRawFd;
                        let keep = std::fs::File::open(&path).expect("harness: cannot open temp file");
                        let via = std::path::PathBuf::from(format!("/proc/self/fd/{}", keep.as_raw_fd()));
                        let target = if via.exists() { via } else { path.clone() };
                        let r = alloc::tracked(limit, None, || AsepriteFile::read_file(&target));
                        drop(keep);
                        r
                    }
                    _ => alloc::tracked(limit, None, || AsepriteFile::read_file(&path)),
                }
            };
            let _ = std::fs::remove_file(&path);
            r
        }
    };
    (
        Loaded {
            result,
            rstats,
            consumed,
            astats,
        },
        rlog,
    )
}

fn panic_violation(prop: &str, stage: &str) -> Violation {
    let (loc, msg) = take_panic();
    Violation {
        property: prop.into(),
        kind: "panic".into(),
        stage: stage.into(),
        site: short_loc(&loc),
        msg: normalise(&msg),
        detail: format!("{} at {}", msg, loc),
    }
}

pub fn costs_for(map: &Map, cap: u64) -> Costs {
    if !map.complete {
        return Costs::unknown(cap);
    }
    let render = format::render_cost(map);
    let ts: u64 = map
        .tilesets
        .iter()
        .map(|t| (t.count as u64).saturating_mul(t.tw as u64).saturating_mul(t.th as u64))
        .fold(0u64, |a, b| a.saturating_add(b));
    Costs {
        render,
        debug: render.saturating_add(ts),
        cap,
    }
}

/// Deterministic whole-API observation digest of a loaded sprite (panics propagate).
pub fn observe_digest(f: &AsepriteFile, costs: &Costs) -> (u64, u64, u64) {
    let mut r = Rng::new(0x0B5E_0B5E);
    let ops = observe::full_ops(f, &mut r);
    let mut d = Digest::new();
    let (mut done, mut skipped) = (0, 0);
    for op in &ops {
        match observe::exec(f, op, costs) {
            OpOutcome::Done(x) => {
                // Debug output iterates hash maps: comparable on the same object only
                if !matches!(op, Op::DebugFmt) {
                    d.u64(x);
                }
                done += 1
            }
            OpOutcome::Skipped => {
                d.byte(0xEE);
                skipped += 1
            }
            OpOutcome::BadDims(m) => panic!("bad dims: {}", m),
        }
    }
    (d.finish(), done, skipped)
}

pub const COST_CAP: u64 = 1 << 22;

/// Execute a plan on a fresh 2 MiB thread (the "ordinary thread" of C04).
pub fn run_plan(plan: &Plan, verbose: bool) -> Report {
    std::thread::scope(|s| {
        std::thread::Builder::new()
            .stack_size(STACK)
            .name("run".into())
            .spawn_scoped(s, || run_plan_here(plan, verbose))
            .expect("spawn")
            .join()
            .unwrap_or_else(|_| Report {
                violation: Some(Violation {
                    property: plan.property.clone(),
                    kind: "harness".into(),
                    stage: "run".into(),
                    site: String::new(),
                    msg: "run thread panicked outside catch_unwind".into(),
                    detail: String::new(),
                }),
                facts: Facts::default(),
            })
    })
}

/// Marker written (by the worker) once the load of a run has finished, so that the supervisor
/// can tell a death during load from a death during use.
pub static LOAD_DONE_HOOK: std::sync::OnceLock<fn(u64)> = std::sync::OnceLock::new();

fn run_plan_here(plan: &Plan, verbose: bool) -> Report {
    // history first: earlier runs on this thread whose only purpose is the state they may leave
    for h in &plan.prelude {
        stage("history");
        let _ = run_plan_here(h, false);
    }
    let image = plan.image();
    match plan.mode.as_str() {
        "load" | "use" => run_load_use(plan, &image, verbose),
        "mem" => run_mem(plan, &image, verbose),
        "trunc" => run_trunc(plan, &image),
        "reader" => run_reader(plan, &image, verbose),
        "threads" => crate::threads::run_threads(plan, &image, verbose),
        m => Report {
            violation: Some(Violation {
                property: plan.property.clone(),
                kind: "harness".into(),
                stage: "plan".into(),
                site: String::new(),
                msg: format!("unknown mode {}", m),
                detail: String::new(),
            }),
            facts: Facts::default(),
        },
    }
}

fn run_load_use(plan: &Plan, image: &[u8], verbose: bool) -> Report {
    let prop = plan.property.as_str();
    let mut facts = Facts::default();
    let limit = machine_limit(image.len());
    stage("load");
    let loaded = catch_unwind(AssertUnwindSafe(|| load(image, plan.wrapper, &plan.reader, Some(limit), false, false).0));
    facts.evals = 1;
    let mut dg = Digest::new();
    dg.bytes(image);
    let loaded = match loaded {
        Err(_) => {
            let v = panic_violation(prop, "load");
            facts.outcome = "panic".into();
            dg.str(&v.signature());
            facts.digest = dg.finish();
            // a load panic is a C04 violation; for C05 it is outside the quantifier
            return Report {
                violation: if plan.mode == "load" { Some(v) } else { None },
                facts,
            };
        }
        Ok(l) => l,
    };
    facts.alloc_peak = loaded.astats.peak;
    facts.alloc_largest = loaded.astats.largest;
    if let Some(rs) = &loaded.rstats {
        dg.u64(rs.trace);
        if rs.calls.saturating_sub(rs.eintr) > 4 * image.len() as u64 + 1024 {
            facts.reader = loaded.rstats.clone();
            return Report {
                violation: Some(Violation {
                    property: prop.into(),
                    kind: "hang".into(),
                    stage: "load".into(),
                    site: String::new(),
                    msg: "reader called more than 4*len+1024 times".into(),
                    detail: format!("{} calls", rs.calls),
                }),
                facts,
            };
        }
    }
    facts.reader = loaded.rstats.clone();
    let file = match loaded.result {
        Err(e) => {
            facts.outcome = err_class(&e);
            dg.str(&facts.outcome);
            facts.digest = dg.finish();
            if verbose {
                eprintln!("load: {}", e);
            }
            return Report { violation: None, facts };
        }
        Ok(f) => f,
    };
    facts.outcome = "ok".into();
    facts.loaded = true;
    dg.str("ok");
    if plan.mode == "load" {
        facts.digest = dg.finish();
        return Report { violation: None, facts };
    }
    if let Some(h) = LOAD_DONE_HOOK.get() {
        h(plan.run);
    }
    // ---- client session (C05)
    let map = format::walk(image);
    // dedicated big-render scenarios raise the work cap through the plan note
    let cap = plan
        .note
        .strip_prefix("costcap=")
        .and_then(|s| s.parse::<u32>().ok())
        .map(|b| 1u64 << b.min(40))
        .unwrap_or(COST_CAP);
    let costs = costs_for(&map, cap);
    if !map.complete {
        facts.probes.push("loaded-but-unwalkable".into());
    }
    if cap > COST_CAP {
        facts.probes.push("big-render-scenario".into());
    }
    let ops: Vec<Op> = match &plan.workload {
        Workload::None => Vec::new(),
        Workload::Explicit(o) => o.clone(),
        Workload::Auto(seed) => {
            let mut r = Rng::sub(*seed, "workload");
            let mut v = match catch_unwind(AssertUnwindSafe(|| observe::full_ops(&file, &mut r))) {
                Ok(v) => v,
                Err(_) => {
                    let mut v = panic_violation(prop, "full_ops");
                    v.stage = "shape-queries".into();
                    return Report { violation: Some(v), facts };
                }
            };
            let n = 20 + r.usize_below(60);
            v.extend(observe::random_ops(&mut r, n, file.num_layers(), file.num_frames()));
            v
        }
    };
    let mut counts: std::collections::BTreeMap<&'static str, u64> = Default::default();
    for op in &ops {
        if TRACE.load(std::sync::atomic::Ordering::Relaxed) {
            let _p = alloc::pause();
            eprintln!("STAGE op:{}", op.to_json());
        }
        let res = alloc::tracked(Some(limit), None, || catch_unwind(AssertUnwindSafe(|| observe::exec(&file, op, &costs)))).0;
        match res {
            Err(_) => {
                let v = panic_violation(prop, op.name());
                if verbose {
                    eprintln!("op {:?}: {}", op, v.detail);
                }
                facts.sample = Some(op.to_json());
                return Report { violation: Some(v), facts };
            }
            Ok(OpOutcome::BadDims(m)) => {
                facts.sample = Some(op.to_json());
                return Report {
                    violation: Some(Violation {
                        property: prop.into(),
                        kind: "dims".into(),
                        stage: op.name().into(),
                        site: String::new(),
                        msg: normalise(&m),
                        detail: m,
                    }),
                    facts,
                };
            }
            Ok(OpOutcome::Skipped) => {
                facts.ops_skipped += 1;
                dg.byte(0xEE);
            }
            Ok(OpOutcome::Done(x)) => {
                facts.ops_done += 1;
                *counts.entry(op.name()).or_insert(0) += 1;
                // Debug output iterates hash maps (per-process RandomState): it is executed for
                // its totality but its text is not part of any cross-process digest
                let x = if matches!(op, Op::DebugFmt) { 0 } else { x };
                dg.u64(x);
                let mut k = Digest::new();
                k.str(op.name());
                k.u64(x);
                facts.distinct.push(k.finish());
            }
        }
    }
    facts.op_counts = counts.into_iter().map(|(k, v)| (k.to_string(), v)).collect();
    facts.digest = dg.finish();
    Report { violation: None, facts }
}

fn run_mem(plan: &Plan, image: &[u8], verbose: bool) -> Report {
    let prop = plan.property.as_str();
    let mut facts = Facts::default();
    facts.evals = 1;
    let wrapper = if plan.wrapper.uses_sim() { plan.wrapper } else { Wrapper::Sim };
    stage("load");
    let loaded = catch_unwind(AssertUnwindSafe(|| load(image, wrapper, &plan.reader, None, true, false).0));
    let mut dg = Digest::new();
    dg.bytes(image);
    let loaded = match loaded {
        Err(_) => {
            // a panic is C04's business; C12 only records it
            let _ = take_panic();
            facts.outcome = "panic".into();
            facts.digest = dg.finish();
            return Report { violation: None, facts };
        }
        Ok(l) => l,
    };
    let rs = loaded.rstats.clone().unwrap_or_default();
    facts.alloc_peak = loaded.astats.peak;
    facts.alloc_largest = loaded.astats.largest;
    facts.outcome = match &loaded.result {
        Ok(_) => "ok".into(),
        Err(e) => err_class(e),
    };
    facts.loaded = loaded.result.is_ok();
    // Drop the sprite outside any tracked scope.
    drop(loaded.result);
    let supplied = rs.delivered as i64;
    let bound_total = MEM_BASE + MEM_PER_BYTE.saturating_mul(supplied);
    dg.u64(loaded.astats.peak);
    dg.u64(rs.trace);
    facts.digest = dg.finish();
    facts.reader = Some(rs.clone());
    if verbose {
        eprintln!(
            "mem: peak={} largest={} supplied={} bound={} in-flight-excess={} outcome={}",
            loaded.astats.peak, loaded.astats.largest, supplied, bound_total, rs.mem_excess, facts.outcome
        );
    }
    let over_total = loaded.astats.peak as i64 > bound_total;
    let over_inflight = rs.mem_excess > 0;
    if over_total || over_inflight {
        // diagnostic re-run: find the allocation call site
        let site = alloc_site(image, wrapper, &plan.reader, if over_inflight { MEM_BASE as u64 + (MEM_PER_BYTE as u64) * rs.mem_excess_at } else { bound_total as u64 });
        return Report {
            violation: Some(Violation {
                property: prop.into(),
                kind: "mem-bound".into(),
                stage: "load".into(),
                site,
                msg: "live heap above 64 MiB + 8192 B per supplied byte".into(),
                detail: format!(
                    "peak {} B, largest request {} B, supplied {} B (bound {} B); in-flight: excess {} B when {} B had been supplied",
                    loaded.astats.peak, loaded.astats.largest, supplied, bound_total, rs.mem_excess.max(0), rs.mem_excess_at
                ),
            }),
            facts,
        };
    }
    Report { violation: None, facts }
}

/// Re-run the load with a watch threshold and report the first asefile frame of the backtrace
/// at the allocation that crossed it.
fn alloc_site(image: &[u8], wrapper: Wrapper, rp: &ReaderPlan, threshold: u64) -> String {
    let r = catch_unwind(AssertUnwindSafe(|| {
        let mut s = SimReader::new(image, rp);
        let _ = wrapper;
        let (_res, _st) = alloc::tracked_watch(threshold, || AsepriteFile::read(&mut s));
    }));
    let _ = r;
    let bt = alloc::take_watch_backtrace().unwrap_or_default();
    // first frame mentioning asefile::
    for line in bt.lines() {
        let l = line.trim();
        if let Some(i) = l.find("asefile::") {
            let f = &l[i..];
            // strip hash suffix
            let f = match f.rfind("::h") {
                Some(j) if f.len() - j == 19 => &f[..j],
                _ => f,
            };
            return f.to_string();
        }
    }
    "unknown".into()
}

fn run_trunc(plan: &Plan, image: &[u8]) -> Report {
    let mut facts = Facts::default();
    facts.evals = 1;
    if plan.note == "warmup" {
        // the complete file, loaded through the same seam just before its truncated versions (a
        // writer crash typically shortens a file the application has loaded before): not judged
        let _ = catch_unwind(AssertUnwindSafe(|| load(image, plan.wrapper, &plan.reader, None, false, false).0));
        let _ = take_panic();
        facts.outcome = "warmup".into();
        return Report { violation: None, facts };
    }
    let v = trunc_check(&plan.property, image, plan.wrapper, &plan.reader);
    facts.outcome = if v.is_some() { "violation".into() } else { "err".into() };
    Report { violation: v, facts }
}

/// C13 oracle on one prefix.
pub fn trunc_check(prop: &str, prefix: &[u8], wrapper: Wrapper, rp: &ReaderPlan) -> Option<Violation> {
    let res = catch_unwind(AssertUnwindSafe(|| load(prefix, wrapper, rp, None, false, false).0));
    match res {
        Err(_) => Some(panic_violation(prop, "load")),
        Ok(l) => match l.result {
            Err(_) => None,
            Ok(f) => Some(Violation {
                property: prop.into(),
                kind: "loaded-truncated".into(),
                stage: "load".into(),
                site: String::new(),
                msg: "strict prefix loaded as a sprite".into(),
                detail: format!(
                    "prefix of {} bytes loaded: {}x{}, {} frames, {} layers",
                    prefix.len(),
                    f.width(),
                    f.height(),
                    f.num_frames(),
                    f.num_layers()
                ),
            }),
        },
    }
}

/// Reference (fault-free, in-memory) load used by C14 and C16.
pub enum Reference {
    Ok { digest: u64, consumed: usize, file: AsepriteFile },
    Err { class: String, consumed: usize },
}

pub fn reference(image: &[u8], costs: &Costs) -> Result<Reference, Violation> {
    let l = catch_unwind(AssertUnwindSafe(|| load(image, Wrapper::Slice, &ReaderPlan::default(), None, false, false).0));
    let l = match l {
        Err(_) => return Err(panic_violation("ref", "load")),
        Ok(l) => l,
    };
    match l.result {
        Err(e) => Ok(Reference::Err {
            class: err_class(&e),
            consumed: l.consumed,
        }),
        Ok(f) => {
            let d = catch_unwind(AssertUnwindSafe(|| observe_digest(&f, costs)));
            match d {
                Err(_) => Err(panic_violation("ref", "observe")),
                Ok((d, _, _)) => Ok(Reference::Ok {
                    digest: d,
                    consumed: l.consumed,
                    file: f,
                }),
            }
        }
    }
}

fn run_reader(plan: &Plan, image: &[u8], verbose: bool) -> Report {
    let prop = plan.property.as_str();
    let mut facts = Facts::default();
    facts.evals = 1;
    let map = format::walk(image);
    let costs = costs_for(&map, COST_CAP);
    let reference = match reference(image, &costs) {
        Ok(r) => r,
        Err(mut v) => {
            // the reference itself panicked: not a C14 matter (C04/C05), skip
            v.property = prop.into();
            facts.outcome = "reference-panicked".into();
            return Report { violation: None, facts };
        }
    };
    if let Some(h) = LOAD_DONE_HOOK.get() {
        h(plan.run);
    }
    let (ref_consumed, ref_desc) = match &reference {
        // For a well-formed file "the needed data" is everything up to the end of the last frame
        // (the same end that C13 uses), even if this build of the library happens to leave the tail
        // of the last chunk unread.
        Reference::Ok { consumed, digest, .. } => ((*consumed).max(if map.complete { map.end } else { 0 }), format!("ok:{:016x}", digest)),
        Reference::Err { consumed, class } => (*consumed, class.clone()),
    };
    let res = catch_unwind(AssertUnwindSafe(|| load(image, plan.wrapper, &plan.reader, None, false, verbose)));
    let mut dg = Digest::new();
    dg.bytes(image);
    let (l, rlog) = match res {
        Err(_) => {
            let v = panic_violation(prop, "load");
            return Report { violation: Some(v), facts };
        }
        Ok(x) => x,
    };
    if verbose {
        if let Some(lg) = &rlog {
            eprintln!("reader events (requested, result; -1=EINTR, -2=error): {:?}", &lg[..lg.len().min(400)]);
        }
    }
    let rs = l.rstats.clone().unwrap_or_default();
    dg.u64(rs.trace);
    facts.reader = l.rstats.clone();
    if rs.calls.saturating_sub(rs.eintr) > 4 * image.len() as u64 + 1024 {
        return Report {
            violation: Some(Violation {
                property: prop.into(),
                kind: "hang".into(),
                stage: "load".into(),
                site: String::new(),
                msg: "reader called more than 4*len+1024 times".into(),
                detail: format!("{} calls", rs.calls),
            }),
            facts,
        };
    }
    let mk = |kind: &str, msg: String, detail: String| Violation {
        property: prop.into(),
        kind: kind.into(),
        stage: "load".into(),
        site: String::new(),
        msg,
        detail,
    };
    // Did a hard error fire before the needed data had been delivered?
    let hard_before = match plan.reader.error {
        Some((at, _, _)) if plan.wrapper.uses_sim() => {
            let at = match plan.wrapper {
                Wrapper::ChainSim(split) => at.max(split.min(image.len()) as u64),
                _ => at,
            };
            (at as usize) < ref_consumed && rs.errors > 0
        }
        _ => false,
    };
    let violation = if hard_before {
        let (_, kind, _) = plan.reader.error.unwrap();
        match &l.result {
            Ok(_) => Some(mk(
                "io-error-not-returned",
                "load returned a sprite although the reader failed before the needed data".into(),
                format!("injected {} ; reference {}", kind.name(), ref_desc),
            )),
            Err(AsepriteParseError::IoError(e)) => {
                facts.outcome = format!("err:IoError:{}", kind.name());
                let err: &dyn std::error::Error = l.result.as_ref().err().unwrap();
                let src_io = err.source().and_then(|s| s.downcast_ref::<std::io::Error>());
                if src_io.is_none() {
                    Some(mk(
                        "io-error-not-returned",
                        "Error::source() does not expose an io::Error".into(),
                        format!("injected {}", kind.name()),
                    ))
                } else if !crate::simreader::carried(kind, e) || !crate::simreader::carried(kind, src_io.unwrap()) {
                    // "carrying that error as its source": the reported error must be the returned
                    // io::Error or be reachable down its source() chain (context wrapping is fine);
                    // a fresh error of the same kind, or of another kind, is not that error
                    Some(mk(
                        "io-error-not-returned",
                        "IoError does not carry the error the reader reported (neither itself nor down its source chain)".into(),
                        format!("injected {} got {:?} (kind {:?} raw {:?})", kind.name(), e, e.kind(), e.raw_os_error()),
                    ))
                } else {
                    if e.get_ref().map(|p| p.is::<crate::simreader::SimIoError>()).unwrap_or(false) {
                        facts.probes.push("error-object-survived".into());
                    } else if !kind.is_raw() {
                        facts.probes.push("error-object-carried-down-the-source-chain".into());
                    }
                    None
                }
            }
            Err(e) => Some(mk(
                "io-error-not-returned",
                "reader failure surfaced as a non-I/O error variant".into(),
                format!("injected {} got {}", kind.name(), err_class(e)),
            )),
        }
    } else {
        // schedule-only (or error after the needed data): result must equal the reference
        let got = match &l.result {
            Err(e) => Ok(err_class(e)),
            Ok(f) => catch_unwind(AssertUnwindSafe(|| observe_digest(f, &costs))).map(|(d, _, _)| format!("ok:{:016x}", d)),
        };
        match got {
            Err(_) => {
                let _ = take_panic();
                None // observation panic on a sprite: C05's business
            }
            Ok(got) => {
                facts.outcome = if got.starts_with("ok") { "ok".into() } else { got.clone() };
                let after_needed = plan.reader.error.is_some() && rs.errors > 0;
                if got != ref_desc {
                    if after_needed {
                        facts.probes.push("error-after-needed-data-changed-result".into());
                        None
                    } else {
                        Some(mk(
                            "result-differs",
                            "result depends on how the reader delivers the bytes".into(),
                            format!("reference {} ; got {} ; wrapper {}", ref_desc, got, plan.wrapper.name()),
                        ))
                    }
                } else {
                    None
                }
            }
        }
    };
    // Not part of C14 as stated (the loader owns its reader and only the returned value is
    // specified), but worth telling a maintainer: how many bytes were taken from the reader
    // depends on how it delivered them (read-ahead), which matters to callers that keep reading
    // the same stream afterwards.
    if violation.is_none() && matches!(plan.wrapper, Wrapper::Sim | Wrapper::Cursor) && plan.reader.error.is_none() {
        if let Reference::Ok { consumed, .. } = &reference {
            if l.result.is_ok() && l.consumed != *consumed {
                facts.probes.push("NOTE:bytes-taken-from-the-reader-depend-on-the-delivery-pattern".into());
            }
        }
    }
    facts.loaded = l.result.is_ok();
    dg.str(&facts.outcome);
    facts.digest = dg.finish();
    Report { violation, facts }
}
