//! Storage faults on the simulated disk (DESIGN §3.1). Each fault is turned into explicit byte
//! edits so that a replay file does not depend on this generator staying unchanged.

use crate::format::{get, Field, Kind, Map};
use crate::plan::Edit;
use crate::rng::Rng;

pub const FAULT_KINDS: &[&str] = &[
    "field",
    "bitflip",
    "byte-set",
    "crash-prefix",
    "torn",
    "lost-sector",
    "misdirected",
    "splice",
    "garbage",
    "chunk-dup",
    "chunk-drop",
    "chunk-swap",
    "chunk-move",
    "chunk-foreign",
];

/// Chunk-granular misdirected / lost / duplicated writes: the container stays well-formed (frame
/// sizes, chunk counts and file size are fixed up, as a writer that re-serialises its chunk list
/// would), so the damage reaches the semantic layer of the parser instead of dying at framing.
/// Returns the whole new image as one edit.
pub fn chunk_fault(r: &mut Rng, kind: &str, base: &[u8], m: &Map, other: &[u8]) -> Option<Edit> {
    if !m.complete || m.chunks.is_empty() {
        return None;
    }
    // decompose into header + per-frame chunk lists
    let mut frames: Vec<(Vec<u8>, Vec<Vec<u8>>)> = Vec::new(); // (16-byte frame header, chunks)
    for (fi, (fs, _)) in m.frames.iter().enumerate() {
        let hdr = base[*fs..*fs + 16].to_vec();
        let chunks: Vec<Vec<u8>> = m.chunks.iter().filter(|c| c.frame == fi).map(|c| base[c.off..c.off + c.size].to_vec()).collect();
        frames.push((hdr, chunks));
    }
    let total: usize = frames.iter().map(|f| f.1.len()).sum();
    if total == 0 {
        return None;
    }
    let pick = |r: &mut Rng, frames: &Vec<(Vec<u8>, Vec<Vec<u8>>)>| -> Option<(usize, usize)> {
        let nonempty: Vec<usize> = (0..frames.len()).filter(|i| !frames[*i].1.is_empty()).collect();
        if nonempty.is_empty() {
            return None;
        }
        let f = *r.pick(&nonempty);
        Some((f, r.usize_below(frames[f].1.len())))
    };
    let label;
    match kind {
        "chunk-dup" => {
            let (f, c) = pick(r, &frames)?;
            let ch = frames[f].1[c].clone();
            let at = if r.chance(1, 2) { c + 1 } else { r.usize_below(frames[f].1.len() + 1) };
            label = format!("chunk-dup: chunk {} (type {:#06x}) of frame {} written twice (again at {})", c, get(&ch, 4, 2), f, at);
            frames[f].1.insert(at, ch);
        }
        "chunk-drop" => {
            let (f, c) = pick(r, &frames)?;
            let ch = frames[f].1.remove(c);
            label = format!("chunk-drop: lost write of chunk {} (type {:#06x}) of frame {}", c, get(&ch, 4, 2), f);
        }
        "chunk-swap" => {
            let (f, c) = pick(r, &frames)?;
            if frames[f].1.len() < 2 {
                return None;
            }
            let d = if r.chance(1, 2) && c + 1 < frames[f].1.len() { c + 1 } else { r.usize_below(frames[f].1.len()) };
            frames[f].1.swap(c, d);
            label = format!("chunk-swap: chunks {} and {} of frame {} exchanged", c, d, f);
        }
        "chunk-move" => {
            let (f, c) = pick(r, &frames)?;
            let ch = frames[f].1.remove(c);
            let g = r.usize_below(frames.len());
            let at = r.usize_below(frames[g].1.len() + 1);
            label = format!("chunk-move: chunk {} (type {:#06x}) of frame {} misdirected to frame {} position {}", c, get(&ch, 4, 2), f, g, at);
            frames[g].1.insert(at, ch);
        }
        "chunk-foreign" => {
            // a chunk of another file lands in this one (stale block of a different sprite)
            let om = crate::format::walk(other);
            if om.chunks.is_empty() {
                return None;
            }
            let oc = &om.chunks[r.usize_below(om.chunks.len())];
            if oc.off + oc.size > other.len() {
                return None;
            }
            let ch = other[oc.off..oc.off + oc.size].to_vec();
            let g = r.usize_below(frames.len());
            let at = r.usize_below(frames[g].1.len() + 1);
            let replace = r.chance(1, 2) && !frames[g].1.is_empty();
            label = format!("chunk-foreign: chunk type {:#06x} of another file {} frame {} position {}", oc.ctype, if replace { "replaces a chunk in" } else { "inserted into" }, g, at);
            if replace {
                let at = at.min(frames[g].1.len() - 1);
                frames[g].1[at] = ch;
            } else {
                frames[g].1.insert(at, ch);
            }
        }
        _ => return None,
    }
    // re-serialise
    let mut out = base[..128].to_vec();
    for (hdr, chunks) in &frames {
        let start = out.len();
        out.extend_from_slice(hdr);
        for c in chunks {
            out.extend_from_slice(c);
        }
        let size = (out.len() - start) as u32;
        crate::format::put32(&mut out, start, size);
        let n = chunks.len() as u32;
        crate::format::put16(&mut out, start + 6, n.min(0xFFFF) as u16);
        crate::format::put32(&mut out, start + 12, if r.chance(1, 2) { n } else if n < 0xFFFF { 0 } else { n });
    }
    // keep whatever followed the last frame
    out.extend_from_slice(&base[m.end.min(base.len())..]);
    let total_len = out.len() as u32;
    crate::format::put32(&mut out, 0, total_len);
    Some(Edit {
        label,
        off: 0,
        del: base.len(),
        ins: out,
    })
}

/// Boundary values for an integer field of `width` bytes whose current value is `cur`.
/// `related` are reference-aware values ("one more than the referenced collection" etc.).
pub fn boundary_values(width: usize, cur: u64, related: &[u64]) -> Vec<u64> {
    let max: u64 = if width >= 8 { u64::MAX } else { (1u64 << (8 * width)) - 1 };
    let sign = 1u64 << (8 * width - 1);
    let mut v = vec![
        0,
        1,
        2,
        max,
        max - 1,
        sign,
        sign - 1,
        sign + 1,
        cur.wrapping_add(1) & max,
        cur.wrapping_sub(1) & max,
        cur.wrapping_mul(2) & max,
        cur / 2,
    ];
    if width >= 2 {
        v.extend_from_slice(&[0xFF, 0x100, 0x101, 3, 16, 64, 1000]);
    }
    if width >= 4 {
        v.extend_from_slice(&[0xFFFF, 0x1_0000, 0x1_0001, 0x00FF_FFFF, 0x0100_0000, 0x1000_0000, 0x4000_0000]);
    }
    for r in related {
        v.push(*r & max);
    }
    v.sort();
    v.dedup();
    v.retain(|x| *x != cur);
    v
}

/// Strictly larger boundary values (C12: "inflated to each larger boundary value up to its
/// type maximum"): every larger power of two, power of two minus one, and the type maximum.
pub fn inflated_values(width: usize, cur: u64) -> Vec<u64> {
    let max: u64 = (1u64 << (8 * width)) - 1;
    let mut v = Vec::new();
    for k in 0..(8 * width) {
        let p = 1u64 << k;
        for c in [p - 1, p, p + 1] {
            if c > cur && c <= max {
                v.push(c);
            }
        }
    }
    v.push(max);
    v.push(max - 1);
    v.push(cur.saturating_mul(2).min(max));
    v.push(cur.saturating_add(1).min(max));
    v.sort();
    v.dedup();
    v.retain(|x| *x > cur);
    v
}

pub fn int_fields(m: &Map) -> Vec<&Field> {
    m.fields
        .iter()
        .filter(|f| f.width <= 4 && !matches!(f.kind, Kind::Payload | Kind::Reserved))
        .collect()
}

/// Current value of a mapped field (fields whose name ends in `-be` are stored big-endian).
pub fn field_get(base: &[u8], f: &Field) -> u64 {
    let v = get(base, f.off, f.width);
    if f.name.ends_with("-be") {
        let mut o = 0u64;
        for i in 0..f.width {
            o |= ((v >> (8 * i)) & 0xFF) << (8 * (f.width - 1 - i));
        }
        o
    } else {
        v
    }
}

pub fn field_edit(base: &[u8], f: &Field, v: u64) -> Edit {
    let cur = field_get(base, f);
    let mut ins = vec![0u8; f.width];
    crate::format::put(&mut ins, 0, f.width, v);
    if f.name.ends_with("-be") {
        ins.reverse();
    }
    Edit {
        label: format!("field {}.{}@{} ({}, {}B): {} -> {}", f.chunk, f.name, f.off, f.kind.name(), f.width, cur, v),
        off: f.off,
        del: f.width,
        ins,
    }
}

/// Values that refer to the file's own collections, for reference-aware faults.
pub fn related_values(m: &Map) -> Vec<u64> {
    let mut v = vec![
        m.num_layers as u64,
        m.num_layers as u64 + 1,
        m.num_layers.saturating_sub(1) as u64,
        m.num_frames_declared as u64,
        m.num_frames_declared as u64 + 1,
        m.num_frames_declared.saturating_sub(1) as u64,
        m.canvas.0 as u64,
        m.canvas.1 as u64,
    ];
    // every chunk type code: an enum field flipped to another *valid* code is the subtle case
    v.extend_from_slice(&[0x0004, 0x0011, 0x2004, 0x2005, 0x2006, 0x2007, 0x2008, 0x2016, 0x2017, 0x2018, 0x2019, 0x2020, 0x2022, 0x2023]);
    for t in &m.tilesets {
        v.push(t.count as u64);
        v.push(t.count as u64 + 1);
        v.push(t.id as u64 + 1);
    }
    v
}

/// Draw 1..3 storage faults (70 % exactly one). Returns edits to apply in order; offsets of
/// later edits refer to the image after the earlier ones (all same-length edits come first).
pub fn gen_faults(r: &mut Rng, base: &[u8], m: &Map, other: &[u8], kinds: &[&str]) -> (Vec<Edit>, Vec<String>) {
    let n = match r.below(10) {
        0..=6 => 1,
        7 | 8 => 2,
        _ => 3,
    };
    let mut edits = Vec::new();
    let mut fired = Vec::new();
    let sector = *r.pick(&[1usize, 16, 64, 512, 4096]);
    let len = base.len();
    if len == 0 {
        return (edits, fired);
    }
    // chunk-granular faults rewrite the container, so they come alone (optionally followed by one
    // field fault on the rewritten image, generated by the caller through a second draw)
    let chunk_kinds: Vec<&str> = kinds.iter().copied().filter(|k| k.starts_with("chunk-")).collect();
    if !chunk_kinds.is_empty() && r.chance(1, 5) {
        let k = *r.pick(&chunk_kinds);
        if let Some(e) = chunk_fault(r, k, base, m, other) {
            // optionally a second chunk fault on top
            let mut out = vec![e];
            if r.chance(1, 4) {
                let img = out[0].ins.clone();
                let m2 = crate::format::walk(&img);
                let k2 = *r.pick(&chunk_kinds);
                if let Some(e2) = chunk_fault(r, k2, &img, &m2, other) {
                    out.push(e2);
                    fired.push(k2.to_string());
                }
            }
            fired.push(k.to_string());
            return (out, fired);
        }
    }
    let fields = int_fields(m);
    let related = related_values(m);
    let mut length_changing: Vec<Edit> = Vec::new();
    for _ in 0..n {
        // `field` weighted highest
        let kind = if r.chance(1, 2) && kinds.contains(&"field") {
            "field"
        } else {
            *r.pick(kinds)
        };
        match kind {
            "field" if !fields.is_empty() => {
                // bias away from the (numerous) per-entry fields of long tables
                let f = fields[r.usize_below(fields.len())];
                let cur = get(base, f.off, f.width);
                let vals = boundary_values(f.width, cur, &related);
                let v = if r.chance(1, 8) { r.next() & ((1u64 << (8 * f.width)) - 1) } else { *r.pick(&vals) };
                edits.push(field_edit(base, f, v));
                fired.push(format!("field:{}.{}:{}", f.chunk, f.name, f.kind.name()));
            }
            "bitflip" => {
                let k = 1 + r.usize_below(4);
                for _ in 0..k {
                    let off = pick_offset(r, m, len);
                    let bit = r.below(8) as u8;
                    edits.push(Edit {
                        label: format!("bitflip @{} bit {}", off, bit),
                        off,
                        del: 1,
                        ins: vec![base[off] ^ (1 << bit)],
                    });
                }
                fired.push("bitflip".into());
            }
            "byte-set" => {
                let off = pick_offset(r, m, len);
                let v = match r.below(6) {
                    0 => 0,
                    1 => 1,
                    2 => 0x7F,
                    3 => 0x80,
                    4 => 0xFF,
                    _ => r.byte(),
                };
                edits.push(Edit {
                    label: format!("byte-set @{} = {:#x}", off, v),
                    off,
                    del: 1,
                    ins: vec![v],
                });
                fired.push("byte-set".into());
            }
            "crash-prefix" => {
                let c = pick_cut(r, m, len);
                length_changing.push(Edit {
                    label: format!("crash-prefix: only [0,{}) durable", c),
                    off: c,
                    del: len,
                    ins: vec![],
                });
                fired.push("crash-prefix".into());
            }
            "torn" => {
                let c = pick_cut(r, m, len);
                let end = ((c / sector) + 1) * sector;
                let fill_len = end.min(len).saturating_sub(c);
                let fill: Vec<u8> = match r.below(3) {
                    0 => vec![0; fill_len],
                    1 => vec![0xFF; fill_len],
                    _ => (0..fill_len).map(|i| other.get(c + i).copied().unwrap_or(0)).collect(),
                };
                length_changing.push(Edit {
                    label: format!("torn: write torn at {} (sector {}): tail of last sector filled", c, sector),
                    off: c,
                    del: len,
                    ins: fill,
                });
                fired.push("torn".into());
            }
            "lost-sector" => {
                let s = r.usize_below(len / sector + 1);
                let a = (s * sector).min(len.saturating_sub(1));
                let b = (a + sector).min(len);
                let ins: Vec<u8> = if r.chance(1, 2) {
                    vec![0; b - a]
                } else {
                    (a..b).map(|i| other.get(i).copied().unwrap_or(0)).collect()
                };
                edits.push(Edit {
                    label: format!("lost-sector: lost write, sector {} [{},{}) reads old content", s, a, b),
                    off: a,
                    del: b - a,
                    ins,
                });
                fired.push("lost-sector".into());
            }
            "misdirected" => {
                let sec = sector.max(16);
                let ns = len / sec + 1;
                let (i, j) = (r.usize_below(ns), r.usize_below(ns));
                let a = (i * sec).min(len);
                let b = (a + sec).min(len);
                let src: Vec<u8> = base[a..b].to_vec();
                let ja = (j * sec).min(len.saturating_sub(1));
                let jb = (ja + src.len()).min(len);
                let src = src[..jb - ja].to_vec();
                if !src.is_empty() {
                    edits.push(Edit {
                        label: format!("misdirected: sector {} content at sector {}", i, j),
                        off: ja,
                        del: src.len(),
                        ins: src,
                    });
                    fired.push("misdirected".into());
                }
            }
            "splice" if !other.is_empty() => {
                // stale data of another file under/after new data, at a sector boundary
                let a = (r.usize_below(len / sector + 1) * sector).min(len);
                let ins: Vec<u8> = other.get(a..).map(|s| s.to_vec()).unwrap_or_default();
                length_changing.push(Edit {
                    label: format!("splice: from {} on, stale content of another file", a),
                    off: a,
                    del: len,
                    ins,
                });
                fired.push("splice".into());
            }
            "chunk-dup" | "chunk-drop" | "chunk-swap" | "chunk-move" | "chunk-foreign" => {}
            "garbage" => {
                let keep = if r.chance(1, 2) { 128.min(len) } else { 0 };
                let n = r.usize_below(600);
                length_changing.push(Edit {
                    label: format!("garbage: {} arbitrary bytes after {} kept", n, keep),
                    off: keep,
                    del: len,
                    ins: r.bytes(n),
                });
                fired.push("garbage".into());
            }
            _ => {}
        }
    }
    // at most one length-changing fault, applied last
    if let Some(e) = length_changing.into_iter().next() {
        edits.push(e);
    }
    (edits, fired)
}

fn pick_offset(r: &mut Rng, m: &Map, len: usize) -> usize {
    // 50 % into header/field bytes, 50 % anywhere (payload)
    if r.chance(1, 2) && !m.fields.is_empty() {
        let f = &m.fields[r.usize_below(m.fields.len())];
        (f.off + r.usize_below(f.width.max(1).min(8))).min(len - 1)
    } else {
        r.usize_below(len)
    }
}

fn pick_cut(r: &mut Rng, m: &Map, len: usize) -> usize {
    if r.chance(1, 2) && !m.fields.is_empty() {
        let f = &m.fields[r.usize_below(m.fields.len())];
        (f.off + r.usize_below(3)).min(len)
    } else {
        r.usize_below(len + 1)
    }
}
