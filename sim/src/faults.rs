//! Storage faults on the simulated disk (DESIGN §3.1). Each fault is turned into explicit byte
//! edits so that a replay file does not depend on this generator staying unchanged.

use crate::format::{get, Field, Kind, Map};
use crate::plan::Edit;
use crate::rng::Rng;

pub const FAULT_KINDS: &[&str] = &[
    "field",
    "bitflip",
    "byte-set",
    "crash-prefix",
    "torn",
    "lost-sector",
    "misdirected",
    "splice",
    "garbage",
];

/// Boundary values for an integer field of `width` bytes whose current value is `cur`.
/// `related` are reference-aware values ("one more than the referenced collection" etc.).
pub fn boundary_values(width: usize, cur: u64, related: &[u64]) -> Vec<u64> {
    let max: u64 = if width >= 8 { u64::MAX } else { (1u64 << (8 * width)) - 1 };
    let sign = 1u64 << (8 * width - 1);
    let mut v = vec![
        0,
        1,
        2,
        max,
        max - 1,
        sign,
        sign - 1,
        sign + 1,
        cur.wrapping_add(1) & max,
        cur.wrapping_sub(1) & max,
        cur.wrapping_mul(2) & max,
        cur / 2,
    ];
    if width >= 2 {
        v.extend_from_slice(&[0xFF, 0x100, 0x101, 3, 16, 64, 1000]);
    }
    if width >= 4 {
        v.extend_from_slice(&[0xFFFF, 0x1_0000, 0x1_0001, 0x00FF_FFFF, 0x0100_0000, 0x1000_0000, 0x4000_0000]);
    }
    for r in related {
        v.push(*r & max);
    }
    v.sort();
    v.dedup();
    v.retain(|x| *x != cur);
    v
}

/// Strictly larger boundary values (C12: "inflated to each larger boundary value up to its
/// type maximum"): every larger power of two, power of two minus one, and the type maximum.
pub fn inflated_values(width: usize, cur: u64) -> Vec<u64> {
    let max: u64 = (1u64 << (8 * width)) - 1;
    let mut v = Vec::new();
    for k in 0..(8 * width) {
        let p = 1u64 << k;
        for c in [p - 1, p, p + 1] {
            if c > cur && c <= max {
                v.push(c);
            }
        }
    }
    v.push(max);
    v.push(max - 1);
    v.push(cur.saturating_mul(2).min(max));
    v.push(cur.saturating_add(1).min(max));
    v.sort();
    v.dedup();
    v.retain(|x| *x > cur);
    v
}

pub fn int_fields(m: &Map) -> Vec<&Field> {
    m.fields
        .iter()
        .filter(|f| f.width <= 4 && !matches!(f.kind, Kind::Payload | Kind::Reserved))
        .collect()
}

pub fn field_edit(base: &[u8], f: &Field, v: u64) -> Edit {
    let cur = get(base, f.off, f.width);
    let mut ins = vec![0u8; f.width];
    crate::format::put(&mut ins, 0, f.width, v);
    Edit {
        label: format!("field {}.{}@{} ({}, {}B): {} -> {}", f.chunk, f.name, f.off, f.kind.name(), f.width, cur, v),
        off: f.off,
        del: f.width,
        ins,
    }
}

/// Values that refer to the file's own collections, for reference-aware faults.
pub fn related_values(m: &Map) -> Vec<u64> {
    let mut v = vec![
        m.num_layers as u64,
        m.num_layers as u64 + 1,
        m.num_layers.saturating_sub(1) as u64,
        m.num_frames_declared as u64,
        m.num_frames_declared as u64 + 1,
        m.num_frames_declared.saturating_sub(1) as u64,
        m.canvas.0 as u64,
        m.canvas.1 as u64,
    ];
    for t in &m.tilesets {
        v.push(t.count as u64);
        v.push(t.count as u64 + 1);
        v.push(t.id as u64 + 1);
    }
    v
}

/// Draw 1..3 storage faults (70 % exactly one). Returns edits to apply in order; offsets of
/// later edits refer to the image after the earlier ones (all same-length edits come first).
pub fn gen_faults(r: &mut Rng, base: &[u8], m: &Map, other: &[u8], kinds: &[&str]) -> (Vec<Edit>, Vec<String>) {
    let n = match r.below(10) {
        0..=6 => 1,
        7 | 8 => 2,
        _ => 3,
    };
    let mut edits = Vec::new();
    let mut fired = Vec::new();
    let sector = *r.pick(&[1usize, 16, 64, 512, 4096]);
    let len = base.len();
    if len == 0 {
        return (edits, fired);
    }
    let fields = int_fields(m);
    let related = related_values(m);
    let mut length_changing: Vec<Edit> = Vec::new();
    for _ in 0..n {
        // `field` weighted highest
        let kind = if r.chance(1, 2) && kinds.contains(&"field") {
            "field"
        } else {
            *r.pick(kinds)
        };
        match kind {
            "field" if !fields.is_empty() => {
                // bias away from the (numerous) per-entry fields of long tables
                let f = fields[r.usize_below(fields.len())];
                let cur = get(base, f.off, f.width);
                let vals = boundary_values(f.width, cur, &related);
                let v = if r.chance(1, 8) { r.next() & ((1u64 << (8 * f.width)) - 1) } else { *r.pick(&vals) };
                edits.push(field_edit(base, f, v));
                fired.push(format!("field:{}.{}:{}", f.chunk, f.name, f.kind.name()));
            }
            "bitflip" => {
                let k = 1 + r.usize_below(4);
                for _ in 0..k {
                    let off = pick_offset(r, m, len);
                    let bit = r.below(8) as u8;
                    edits.push(Edit {
                        label: format!("bitflip @{} bit {}", off, bit),
                        off,
                        del: 1,
                        ins: vec![base[off] ^ (1 << bit)],
                    });
                }
                fired.push("bitflip".into());
            }
            "byte-set" => {
                let off = pick_offset(r, m, len);
                let v = match r.below(6) {
                    0 => 0,
                    1 => 1,
                    2 => 0x7F,
                    3 => 0x80,
                    4 => 0xFF,
                    _ => r.byte(),
                };
                edits.push(Edit {
                    label: format!("byte-set @{} = {:#x}", off, v),
                    off,
                    del: 1,
                    ins: vec![v],
                });
                fired.push("byte-set".into());
            }
            "crash-prefix" => {
                let c = pick_cut(r, m, len);
                length_changing.push(Edit {
                    label: format!("crash-prefix: only [0,{}) durable", c),
                    off: c,
                    del: len,
                    ins: vec![],
                });
                fired.push("crash-prefix".into());
            }
            "torn" => {
                let c = pick_cut(r, m, len);
                let end = ((c / sector) + 1) * sector;
                let fill_len = end.min(len).saturating_sub(c);
                let fill: Vec<u8> = match r.below(3) {
                    0 => vec![0; fill_len],
                    1 => vec![0xFF; fill_len],
                    _ => (0..fill_len).map(|i| other.get(c + i).copied().unwrap_or(0)).collect(),
                };
                length_changing.push(Edit {
                    label: format!("torn write at {} (sector {}): tail of last sector filled", c, sector),
                    off: c,
                    del: len,
                    ins: fill,
                });
                fired.push("torn".into());
            }
            "lost-sector" => {
                let s = r.usize_below(len / sector + 1);
                let a = (s * sector).min(len.saturating_sub(1));
                let b = (a + sector).min(len);
                let ins: Vec<u8> = if r.chance(1, 2) {
                    vec![0; b - a]
                } else {
                    (a..b).map(|i| other.get(i).copied().unwrap_or(0)).collect()
                };
                edits.push(Edit {
                    label: format!("lost write: sector {} [{},{}) reads old content", s, a, b),
                    off: a,
                    del: b - a,
                    ins,
                });
                fired.push("lost-sector".into());
            }
            "misdirected" => {
                let sec = sector.max(16);
                let ns = len / sec + 1;
                let (i, j) = (r.usize_below(ns), r.usize_below(ns));
                let a = (i * sec).min(len);
                let b = (a + sec).min(len);
                let src: Vec<u8> = base[a..b].to_vec();
                let ja = (j * sec).min(len.saturating_sub(1));
                let jb = (ja + src.len()).min(len);
                let src = src[..jb - ja].to_vec();
                if !src.is_empty() {
                    edits.push(Edit {
                        label: format!("misdirected write: sector {} content at sector {}", i, j),
                        off: ja,
                        del: src.len(),
                        ins: src,
                    });
                    fired.push("misdirected".into());
                }
            }
            "splice" if !other.is_empty() => {
                // stale data of another file under/after new data, at a sector boundary
                let a = (r.usize_below(len / sector + 1) * sector).min(len);
                let ins: Vec<u8> = other.get(a..).map(|s| s.to_vec()).unwrap_or_default();
                length_changing.push(Edit {
                    label: format!("splice: from {} on, stale content of another file", a),
                    off: a,
                    del: len,
                    ins,
                });
                fired.push("splice".into());
            }
            "garbage" => {
                let keep = if r.chance(1, 2) { 128.min(len) } else { 0 };
                let n = r.usize_below(600);
                length_changing.push(Edit {
                    label: format!("garbage: {} arbitrary bytes after {} kept", n, keep),
                    off: keep,
                    del: len,
                    ins: r.bytes(n),
                });
                fired.push("garbage".into());
            }
            _ => {}
        }
    }
    // at most one length-changing fault, applied last
    if let Some(e) = length_changing.into_iter().next() {
        edits.push(e);
    }
    (edits, fired)
}

fn pick_offset(r: &mut Rng, m: &Map, len: usize) -> usize {
    // 50 % into header/field bytes, 50 % anywhere (payload)
    if r.chance(1, 2) && !m.fields.is_empty() {
        let f = &m.fields[r.usize_below(m.fields.len())];
        (f.off + r.usize_below(f.width.max(1).min(8))).min(len - 1)
    } else {
        r.usize_below(len)
    }
}

fn pick_cut(r: &mut Rng, m: &Map, len: usize) -> usize {
    if r.chance(1, 2) && !m.fields.is_empty() {
        let f = &m.fields[r.usize_below(m.fields.len())];
        (f.off + r.usize_below(3)).min(len)
    } else {
        r.usize_below(len + 1)
    }
}
