#![recursion_limit = "512"]
//! asesim — deterministic simulation with fault injection for the `asefile` crate.
//!
//!   asesim run <prop> --tier quick|thorough --seed N --exe <profile>=<path> ... [--workers N]
//!   asesim worker ...            (internal)
//!   asesim exec <plan.json>      execute one plan in this process, print RESULT <json>
//!   asesim replay <replay.json> --exe <profile>=<path>...
//!   asesim gen <seed> [bug] [scale]   write a generated file to stdout (debugging)
//!   asesim walk <file>           print the field map of a file (debugging)
//!   asesim c16-digest ...        per-run observation digests for the cross-profile diff

mod alloc;
mod evidence;
mod exec;
mod faults;
mod format;
mod observe;
mod plan;
mod props;
mod rng;
mod shrink;
mod simreader;
mod spec;
mod supervisor;
mod threads;
mod worker;

#[global_allocator]
static GLOBAL: alloc::Tracking = alloc::Tracking;

use props::Tier;
use std::io::Write;

fn arg_after(args: &[String], flag: &str) -> Option<String> {
    args.iter().position(|a| a == flag).and_then(|i| args.get(i + 1)).cloned()
}

fn parse_tier(s: &str) -> Tier {
    if s == "thorough" {
        Tier::Thorough
    } else {
        Tier::Quick
    }
}

fn exes(args: &[String]) -> Vec<(String, String)> {
    let mut v = Vec::new();
    let mut i = 0;
    while i < args.len() {
        if args[i] == "--exe" && i + 1 < args.len() {
            if let Some((p, e)) = args[i + 1].split_once('=') {
                v.push((p.to_string(), e.to_string()));
            }
            i += 1;
        }
        i += 1;
    }
    if v.is_empty() {
        let me = std::env::current_exe().unwrap().to_string_lossy().to_string();
        v.push(("self".into(), me));
    }
    v
}

fn main() {
    // Configuration seam: the host application's log level. The `log` macros evaluate their
    // arguments only when the level is enabled, so code that is dead under the default level
    // runs under ASESIM_LOG=trace; results must not depend on it.
    if std::env::var("ASESIM_LOG").map(|v| v == "trace").unwrap_or(false) {
        log::set_max_level(log::LevelFilter::Trace);
    }
    let args: Vec<String> = std::env::args().collect();
    let cmd = args.get(1).map(|s| s.as_str()).unwrap_or("");
    match cmd {
        "worker" => {
            let a = worker::WorkerArgs {
                prop: args[2].clone(),
                tier: parse_tier(&args[3]),
                seed: args[4].parse().expect("seed"),
                k: args[5].parse().expect("k"),
                w: args[6].parse().expect("w"),
                replay_dir: args[7].clone(),
                resume: args.iter().position(|a| a == "--resume").map(|i| (args[i + 1].parse().unwrap(), args[i + 2].parse().unwrap())),
                dump: arg_after(&args, "--dump"),
                only_job: arg_after(&args, "--only-job").and_then(|s| s.parse().ok()),
            };
            worker::run_worker(a);
        }
        "run" => {
            let prop = args.get(2).cloned().unwrap_or_default();
            let seed = arg_after(&args, "--seed")
                .or_else(|| std::env::var("VERIF_SEED").ok())
                .and_then(|s| s.parse::<u64>().ok())
                .unwrap_or(1);
            let tier = parse_tier(&arg_after(&args, "--tier").or_else(|| std::env::var("VERIF_TIER").ok()).unwrap_or_else(|| "quick".into()));
            let a = supervisor::RunArgs {
                prop,
                tier,
                seed,
                exes: exes(&args),
                workers: arg_after(&args, "--workers")
                    .and_then(|s| s.parse().ok())
                    .unwrap_or_else(|| std::thread::available_parallelism().map(|n| n.get()).unwrap_or(4)),
                verif_dir: arg_after(&args, "--verif").unwrap_or_else(|| "/verif".into()),
                dump: arg_after(&args, "--dump"),
                no_evidence: args.iter().any(|a| a == "--no-evidence"),
                shrink_budget_s: arg_after(&args, "--shrink-budget").and_then(|s| s.parse().ok()).unwrap_or(60),
                known_path: arg_after(&args, "--known"),
            };
            println!("VERIF_SEED={} property={} tier={}", a.seed, a.prop, a.tier.name());
            let o = supervisor::run(&a);
            std::process::exit(o.exit);
        }
        "exec" => {
            exec::install_panic_hook();
            exec::TRACE.store(true, std::sync::atomic::Ordering::Relaxed);
            let text = std::fs::read_to_string(&args[2]).unwrap_or_else(|e| {
                eprintln!("harness: cannot read plan: {}", e);
                std::process::exit(2)
            });
            let j: serde_json::Value = serde_json::from_str(&text).unwrap_or_else(|e| {
                eprintln!("harness: bad plan json: {}", e);
                std::process::exit(2)
            });
            let plan = plan::Plan::from_json(&j).unwrap_or_else(|e| {
                eprintln!("harness: bad plan: {}", e);
                std::process::exit(2)
            });
            let verbose = args.iter().any(|a| a == "-v");
            let rep = exec::run_plan(&plan, verbose);
            exec::cleanup_tmp();
            let out = serde_json::json!({
                "violation": rep.violation.as_ref().map(|v| v.to_json()),
                "outcome": rep.facts.outcome,
                "digest": format!("{:016x}", rep.facts.digest),
                "alloc_peak": rep.facts.alloc_peak,
                "ops_done": rep.facts.ops_done,
            });
            println!("RESULT {}", out);
            std::process::exit(if rep.violation.is_some() { 1 } else { 0 });
        }
        "replay" => {
            let path = args[2].clone();
            let ex = exes(&args);
            let text = std::fs::read_to_string(&path).unwrap_or_else(|e| {
                eprintln!("harness: cannot read replay: {}", e);
                std::process::exit(2)
            });
            let j: serde_json::Value = serde_json::from_str(&text).expect("replay json");
            let want_profile = j["profile"].as_str().unwrap_or("");
            let exe = ex.iter().find(|(p, _)| p == want_profile).or(ex.first()).unwrap().1.clone();
            let expected = j["expected"]["signature"].as_str().unwrap_or("").to_string();
            let prop = j["property"].as_str().unwrap_or("?").to_string();
            let got = supervisor::exec_file_in_child(&exe, &path, std::time::Duration::from_secs(180));
            supervisor::cleanup_child_tmp();
            match got {
                Err(e) => {
                    eprintln!("HARNESS-ERROR: {}", e);
                    std::process::exit(2);
                }
                Ok(None) => {
                    println!("replay {}: no violation (expected {})", path, expected);
                    std::process::exit(0);
                }
                Ok(Some(v)) => {
                    let sig = v.signature();
                    println!("replay {}: {}", path, sig);
                    println!("  detail: {}", v.detail);
                    if sig == expected || expected.is_empty() {
                        println!("VIOLATION property={} replay={}", prop, path);
                        std::process::exit(1);
                    } else {
                        println!("  a different violation than recorded ({})", expected);
                        println!("VIOLATION property={} replay={}", prop, path);
                        std::process::exit(1);
                    }
                }
            }
        }
        "gen" => {
            let seed: u64 = args[2].parse().expect("seed");
            let bug = args.get(3).cloned();
            let scale: usize = args.get(4).and_then(|s| s.parse().ok()).unwrap_or(1);
            let mut r = rng::Rng::new(seed ^ 0x77);
            let b = match bug {
                Some(b) => props::gen_special(seed, &b, scale, &mut r),
                None => props::gen_from_seed(seed, false, &mut r, 0),
            };
            eprintln!("{} ({} bytes, walk complete: {})", b.desc, b.bytes.len(), b.map.complete);
            std::io::stdout().write_all(&b.bytes).unwrap();
        }
        "walk" => {
            let b = std::fs::read(&args[2]).expect("read");
            let m = format::walk(&b);
            println!("complete={} problem={:?} end={} len={} frames={} chunks={}", m.complete, m.problem, m.end, b.len(), m.frames.len(), m.chunks.len());
            for f in &m.fields {
                if f.width <= 4 {
                    println!("{:6} {:2} {:12} {:18} {:8} = {}", f.off, f.width, f.chunk, f.name, f.kind.name(), format::get(&b, f.off, f.width));
                } else {
                    println!("{:6} {:2} {:12} {:18} {:8}", f.off, f.width, f.chunk, f.name, f.kind.name());
                }
            }
        }
        "selfcheck" => {
            // generator self-check: every generated well-formed base must walk completely and load
            exec::install_panic_hook();
            let n: u64 = args.get(2).and_then(|s| s.parse().ok()).unwrap_or(2000);
            let seed: u64 = arg_after(&args, "--seed").and_then(|s| s.parse().ok()).unwrap_or(1);
            let mut bad = 0;
            let mut total_len = 0usize;
            let mut classes: std::collections::BTreeMap<String, u64> = Default::default();
            for i in 0..n {
                let gseed = rng::mix(&[seed, i]);
                let mut r = rng::Rng::new(gseed);
                let b = props::gen_from_seed(gseed, false, &mut r, 0);
                total_len += b.bytes.len();
                let l = std::panic::catch_unwind(|| exec::load(&b.bytes, plan::Wrapper::Slice, &simreader::ReaderPlan::default(), None, false, false).0);
                let ok = match &l {
                    Ok(l) => l.result.is_ok() && l.consumed == b.map.end,
                    Err(_) => false,
                };
                if !b.map.complete || !ok {
                    bad += 1;
                    let why = match &l {
                        Ok(l) => match &l.result {
                            Ok(_) => format!("consumed {} != end {}", l.consumed, b.map.end),
                            Err(e) => exec::err_class(e),
                        },
                        Err(_) => format!("panic {:?}", exec::take_panic_pub()),
                    };
                    *classes.entry(why.clone()).or_insert(0) += 1;
                    if bad <= 5 {
                        eprintln!("selfcheck: {} walk={} problem={:?}: {}", b.desc, b.map.complete, b.map.problem, why);
                    }
                }
            }
            println!("selfcheck: {} generated, {} not loadable/walkable, mean size {} B", n, bad, total_len / n.max(1) as usize);
            for (k, v) in classes {
                println!("  {} x {}", v, k);
            }
            std::process::exit(if bad == 0 { 0 } else { 2 });
        }
        "miri-c16" => {
            exec::install_panic_hook_verbose();
            let seed: u64 = args.get(2).and_then(|s| s.parse().ok()).unwrap_or(1);
            let n: u64 = args.get(3).and_then(|s| s.parse().ok()).unwrap_or(1);
            threads::miri_c16(seed, n);
        }
        "stress-c16" => {
            exec::install_panic_hook();
            let seed: u64 = arg_after(&args, "--seed").and_then(|s| s.parse().ok()).unwrap_or(1);
            let from: u64 = arg_after(&args, "--from").and_then(|s| s.parse().ok()).unwrap_or(0);
            let to: u64 = arg_after(&args, "--to").and_then(|s| s.parse().ok()).unwrap_or(10);
            let threads: usize = arg_after(&args, "--threads").and_then(|s| s.parse().ok()).unwrap_or(8);
            let iters: usize = arg_after(&args, "--iters").and_then(|s| s.parse().ok()).unwrap_or(300);
            let ctx = props::Ctx::new(seed, Tier::Quick);
            for i in from..to {
                if let Some(m) = threads::stress_c16(&ctx, i, threads, iters) {
                    println!("STRESS-VIOLATION {}", m);
                    std::process::exit(1);
                }
            }
            println!("stress-c16 ok runs={}..{} threads={} iters={}", from, to, threads, iters);
        }
        "c16-digest" => {
            // print "<run> <digest>" for runs [from, to): load + full observation + extreme ops.
            exec::install_panic_hook();
            let seed: u64 = arg_after(&args, "--seed").and_then(|s| s.parse().ok()).unwrap_or(1);
            let from: u64 = arg_after(&args, "--from").and_then(|s| s.parse().ok()).unwrap_or(0);
            let to: u64 = arg_after(&args, "--to").and_then(|s| s.parse().ok()).unwrap_or(100);
            let ctx = props::Ctx::new(seed, Tier::Quick);
            let out = std::io::stdout();
            let mut out = out.lock();
            if let Some(k) = arg_after(&args, "--cells-base").and_then(|s| s.parse::<u64>().ok()) {
                threads::profile_cells(&ctx, k, &mut out);
                return;
            }
            for i in from..to {
                let line = threads::profile_digest_line(&ctx, i);
                writeln!(out, "{} {}", i, line).unwrap();
            }
        }
        _ => {
            eprintln!("usage: asesim run|exec|replay|gen|walk|selfcheck|c16-digest ...");
            std::process::exit(2);
        }
    }
}
