//! Deterministic PRNG: SplitMix64 seeding -> xoshiro256**. No other source of randomness is
//! used anywhere in the simulator. Logging paths never draw.

#[derive(Clone, Debug)]
pub struct Rng {
    s: [u64; 4],
}

pub fn splitmix(x: &mut u64) -> u64 {
    *x = x.wrapping_add(0x9E37_79B9_7F4A_7C15);
    let mut z = *x;
    z = (z ^ (z >> 30)).wrapping_mul(0xBF58_476D_1CE4_E5B9);
    z = (z ^ (z >> 27)).wrapping_mul(0x94D0_49BB_1331_11EB);
    z ^ (z >> 31)
}

/// Mix several integers into one seed (order-sensitive).
pub fn mix(parts: &[u64]) -> u64 {
    let mut h: u64 = 0x243F_6A88_85A3_08D3;
    for p in parts {
        let mut x = h ^ p.wrapping_mul(0x9E37_79B9_7F4A_7C15);
        h = splitmix(&mut x).rotate_left(17) ^ *p;
        let mut y = h;
        h = splitmix(&mut y);
    }
    h
}

pub fn tag(s: &str) -> u64 {
    // FNV-1a, only used to turn stream names into integers.
    let mut h: u64 = 0xcbf2_9ce4_8422_2325;
    for b in s.bytes() {
        h ^= b as u64;
        h = h.wrapping_mul(0x100_0000_01b3);
    }
    h
}

impl Rng {
    pub fn new(seed: u64) -> Rng {
        let mut x = seed;
        let s = [
            splitmix(&mut x),
            splitmix(&mut x),
            splitmix(&mut x),
            splitmix(&mut x),
        ];
        Rng { s }
    }

    /// Independent sub-stream: shrinking one stream never perturbs another.
    pub fn sub(seed: u64, name: &str) -> Rng {
        Rng::new(mix(&[seed, tag(name)]))
    }

    pub fn next(&mut self) -> u64 {
        let r = self.s[1].wrapping_mul(5).rotate_left(7).wrapping_mul(9);
        let t = self.s[1] << 17;
        self.s[2] ^= self.s[0];
        self.s[3] ^= self.s[1];
        self.s[1] ^= self.s[2];
        self.s[0] ^= self.s[3];
        self.s[2] ^= t;
        self.s[3] = self.s[3].rotate_left(45);
        r
    }

    /// Uniform in [0, n). n == 0 returns 0.
    pub fn below(&mut self, n: u64) -> u64 {
        if n == 0 {
            return 0;
        }
        // Multiply-shift; bias is irrelevant for simulation purposes but it is deterministic.
        ((self.next() as u128 * n as u128) >> 64) as u64
    }

    pub fn range(&mut self, lo: i64, hi_incl: i64) -> i64 {
        debug_assert!(hi_incl >= lo);
        lo + self.below((hi_incl - lo) as u64 + 1) as i64
    }

    pub fn usize_below(&mut self, n: usize) -> usize {
        self.below(n as u64) as usize
    }

    /// true with probability num/den
    pub fn chance(&mut self, num: u64, den: u64) -> bool {
        self.below(den) < num
    }

    pub fn pick<'a, T>(&mut self, xs: &'a [T]) -> &'a T {
        &xs[self.usize_below(xs.len())]
    }

    pub fn byte(&mut self) -> u8 {
        (self.next() >> 32) as u8
    }

    pub fn bytes(&mut self, n: usize) -> Vec<u8> {
        let mut v = Vec::with_capacity(n);
        while v.len() < n {
            let x = self.next().to_le_bytes();
            let take = (n - v.len()).min(8);
            v.extend_from_slice(&x[..take]);
        }
        v
    }

    pub fn shuffle<T>(&mut self, xs: &mut [T]) {
        for i in (1..xs.len()).rev() {
            let j = self.usize_below(i + 1);
            xs.swap(i, j);
        }
    }
}

/// 64-bit FNV-1a based digest used for observation and trace hashes (stable across processes,
/// unlike std's RandomState).
#[derive(Clone, Copy, Debug)]
pub struct Digest(pub u64, pub u64);

impl Default for Digest {
    fn default() -> Self {
        Digest::new()
    }
}

impl Digest {
    pub fn new() -> Digest {
        Digest(0xcbf2_9ce4_8422_2325, 0x6c62_272e_07bb_0142)
    }
    #[inline]
    pub fn byte(&mut self, b: u8) {
        self.0 = (self.0 ^ b as u64).wrapping_mul(0x100_0000_01b3);
        self.1 = (self.1 ^ (b as u64).wrapping_add(0x9e)).wrapping_mul(0x0000_0100_0000_01b5);
    }
    pub fn bytes(&mut self, bs: &[u8]) {
        // length-prefixed so that concatenations are unambiguous
        self.u64(bs.len() as u64);
        // process 8 bytes at a time for speed
        let mut it = bs.chunks_exact(8);
        for c in &mut it {
            let w = u64::from_le_bytes([c[0], c[1], c[2], c[3], c[4], c[5], c[6], c[7]]);
            self.0 = (self.0 ^ w).wrapping_mul(0x100_0000_01b3).rotate_left(23);
            self.1 = (self.1 ^ w.rotate_left(32)).wrapping_mul(0x0000_0100_0000_01b5).rotate_left(29);
        }
        for b in it.remainder() {
            self.byte(*b);
        }
    }
    pub fn u64(&mut self, x: u64) {
        self.0 = (self.0 ^ x).wrapping_mul(0x100_0000_01b3).rotate_left(23);
        self.1 = (self.1 ^ x.rotate_left(32)).wrapping_mul(0x0000_0100_0000_01b5).rotate_left(29);
    }
    pub fn i64(&mut self, x: i64) {
        self.u64(x as u64)
    }
    pub fn str(&mut self, s: &str) {
        self.bytes(s.as_bytes())
    }
    pub fn finish(&self) -> u64 {
        let mut x = self.0 ^ self.1.rotate_left(31);
        splitmix(&mut x)
    }
    pub fn finish128(&self) -> (u64, u64) {
        let mut x = self.0;
        let mut y = self.1;
        (splitmix(&mut x) ^ self.1, splitmix(&mut y) ^ self.0)
    }
}
