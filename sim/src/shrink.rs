//! Minimisation of a failing plan. Every candidate is executed in a fresh child process (it may
//! abort) and kept only if the *same violation signature* persists.

use crate::format;
use crate::plan::{Plan, Violation, Workload, Wrapper};
use crate::supervisor::exec_plan_in_child;
use serde_json::{json, Value};
use std::time::{Duration, Instant};

fn same(exe: &str, cand: &Plan, sig: &str, tries: &mut u64) -> bool {
    *tries += 1;
    match exec_plan_in_child(exe, cand, Duration::from_secs(60)) {
        Ok(Some(v)) => v.signature() == sig,
        _ => false,
    }
}

/// Remove chunk `ci` of a walkable image and fix up frame size, chunk counts and file size.
fn drop_chunk(bytes: &[u8], m: &format::Map, ci: usize) -> Option<Vec<u8>> {
    let c = m.chunks.get(ci)?;
    let (fstart, _) = *m.frames.get(c.frame)?;
    let mut b = bytes.to_vec();
    b.drain(c.off..c.off + c.size);
    let fsz = format::get(&b, fstart, 4) as u32;
    format::put32(&mut b, fstart, fsz.checked_sub(c.size as u32)?);
    let old = format::get(&b, fstart + 6, 2) as u32;
    let new = format::get(&b, fstart + 12, 4) as u32;
    if new != 0 {
        format::put32(&mut b, fstart + 12, new - 1);
        if new == 1 {
            // new == 0 would mean "use old"
            format::put16(&mut b, fstart + 6, 0);
        } else if old == new {
            format::put16(&mut b, fstart + 6, (old - 1) as u16);
        }
    } else {
        format::put16(&mut b, fstart + 6, old.checked_sub(1)? as u16);
    }
    let total = b.len() as u32;
    format::put32(&mut b, 0, total);
    Some(b)
}

fn drop_last_frame(bytes: &[u8], m: &format::Map) -> Option<Vec<u8>> {
    if m.frames.len() < 2 {
        return None;
    }
    let (s, e) = *m.frames.last()?;
    let mut b = bytes.to_vec();
    b.drain(s..e);
    let n = format::get(&b, 6, 2) as u16;
    format::put16(&mut b, 6, n.checked_sub(1)?);
    let total = b.len() as u32;
    format::put32(&mut b, 0, total);
    Some(b)
}

pub fn shrink_file(exe: &str, path: &str, v: &Violation, profile: &str, deadline: Instant) -> Result<Value, String> {
    let text = std::fs::read_to_string(path).map_err(|e| e.to_string())?;
    let j: Value = serde_json::from_str(&text).map_err(|e| e.to_string())?;
    let mut plan = Plan::from_json(&j)?;
    let sig = v.signature();
    let mut tries = 0u64;
    let mut steps: Vec<String> = Vec::new();
    let before = (plan.base.len(), plan.edits.len());
    let reproduced = same(exe, &plan, &sig, &mut tries);
    if reproduced {
        let left = |d: Instant| Instant::now() < d;
        // (0) abort-type in use mode: the child told us the op in flight
        if let (Workload::Auto(_), Some(op)) = (&plan.workload, v.detail.strip_prefix("op=").and_then(|d| d.split(" ;; ").next())) {
            if let Ok(opv) = serde_json::from_str::<Value>(op) {
                if let Some(o) = crate::observe::Op::from_json(&opv) {
                    let mut c = plan.clone();
                    c.workload = Workload::Explicit(vec![o]);
                    if same(exe, &c, &sig, &mut tries) {
                        plan = c;
                        steps.push("workload reduced to the op in flight".into());
                    }
                }
            }
        }
        // (0b) history of earlier loads: drop it entirely, else one element at a time
        if !plan.prelude.is_empty() {
            let mut c = plan.clone();
            c.prelude.clear();
            if same(exe, &c, &sig, &mut tries) {
                plan = c;
                steps.push("history of earlier loads not needed".into());
            } else {
                // drop halves, quarters, ... then single elements
                let before_len = plan.prelude.len();
                let mut chunk = (plan.prelude.len() / 2).max(1);
                while chunk >= 1 && left(deadline) {
                    let mut i = 0;
                    let mut any = false;
                    while i < plan.prelude.len() && plan.prelude.len() > 1 && left(deadline) {
                        let mut c = plan.clone();
                        let end = (i + chunk).min(c.prelude.len());
                        c.prelude.drain(i..end);
                        if !c.prelude.is_empty() && same(exe, &c, &sig, &mut tries) {
                            plan = c;
                            any = true;
                        } else {
                            i += chunk;
                        }
                    }
                    if chunk == 1 && !any {
                        break;
                    }
                    if !any {
                        chunk /= 2;
                    }
                }
                if plan.prelude.len() < before_len {
                    steps.push(format!("history shortened {} -> {} earlier runs", before_len, plan.prelude.len()));
                }
                // simplify the surviving history runs: reader sizes
                for i in 0..plan.prelude.len() {
                    let mut c = plan.clone();
                    c.prelude[i].reader.sizes.clear();
                    c.prelude[i].reader.eintr.clear();
                    if same(exe, &c, &sig, &mut tries) {
                        plan = c;
                    }
                }
            }
        }
        // (1) drop faults
        let mut changed = true;
        while changed && left(deadline) {
            changed = false;
            for i in (0..plan.edits.len()).rev() {
                if plan.edits.len() <= 1 && plan.mode == "trunc" {
                    break;
                }
                let mut c = plan.clone();
                c.edits.remove(i);
                if same(exe, &c, &sig, &mut tries) {
                    steps.push(format!("dropped fault: {}", plan.edits[i].label));
                    plan = c;
                    changed = true;
                    break;
                }
            }
        }
        // (2) simplify the reader schedule
        if left(deadline) && !plan.reader.sizes.is_empty() {
            let mut c = plan.clone();
            c.reader.sizes.clear();
            if same(exe, &c, &sig, &mut tries) {
                plan = c;
                steps.push("reader: all reads full".into());
            } else {
                let mut c = plan.clone();
                c.reader.sizes = vec![1];
                if c.reader.sizes != plan.reader.sizes && same(exe, &c, &sig, &mut tries) {
                    plan = c;
                    steps.push("reader: one byte at a time".into());
                }
            }
        }
        if left(deadline) && !plan.reader.eintr.is_empty() {
            let mut c = plan.clone();
            c.reader.eintr.clear();
            if same(exe, &c, &sig, &mut tries) {
                plan = c;
                steps.push("reader: EINTRs dropped".into());
            } else {
                for i in (0..plan.reader.eintr.len()).rev() {
                    let mut c = plan.clone();
                    c.reader.eintr.remove(i);
                    if same(exe, &c, &sig, &mut tries) {
                        plan = c;
                    }
                }
            }
        }
        if left(deadline) && plan.reader.vectored {
            let mut c = plan.clone();
            c.reader.vectored = false;
            if same(exe, &c, &sig, &mut tries) {
                plan = c;
                steps.push("reader: no native read_vectored".into());
            }
        }
        if left(deadline) && !plan.reader.eintr.is_empty() {
            // shorten the bursts that remain (binary search on each count)
            for i in 0..plan.reader.eintr.len() {
                let (mut lo, mut hi) = (1u32, plan.reader.eintr[i].1);
                while lo < hi && left(deadline) {
                    let mid = (lo + hi) / 2;
                    let mut c = plan.clone();
                    c.reader.eintr[i].1 = mid;
                    if same(exe, &c, &sig, &mut tries) {
                        hi = mid;
                    } else {
                        lo = mid + 1;
                    }
                }
                if hi < plan.reader.eintr[i].1 {
                    steps.push(format!("reader: EINTR burst {} -> {}", plan.reader.eintr[i].1, hi));
                    plan.reader.eintr[i].1 = hi;
                }
            }
        }
        if left(deadline) && plan.reader.error.is_some() {
            let mut c = plan.clone();
            c.reader.error = None;
            if same(exe, &c, &sig, &mut tries) {
                plan = c;
                steps.push("reader: hard error dropped".into());
            } else if let Some((at, k, s)) = plan.reader.error {
                // move the error earlier (bisect towards 0)
                let (mut lo, mut hi) = (0u64, at);
                while lo < hi && left(deadline) {
                    let mid = (lo + hi) / 2;
                    let mut c = plan.clone();
                    c.reader.error = Some((mid, k, s));
                    if same(exe, &c, &sig, &mut tries) {
                        hi = mid;
                    } else {
                        lo = mid + 1;
                    }
                }
                if hi < at {
                    plan.reader.error = Some((hi, k, s));
                    steps.push(format!("reader: hard error moved {} -> {}", at, hi));
                }
            }
        }
        if left(deadline) && plan.wrapper != Wrapper::Slice && plan.mode != "mem" {
            for w in [Wrapper::Slice, Wrapper::Sim] {
                if w == plan.wrapper || (w == Wrapper::Slice && plan.reader.is_faulty()) {
                    continue;
                }
                let mut c = plan.clone();
                c.wrapper = w;
                if same(exe, &c, &sig, &mut tries) {
                    steps.push(format!("wrapper {} -> {}", plan.wrapper.name(), w.name()));
                    plan = c;
                    break;
                }
            }
        }
        // (3) workload / threads / schedule
        if let Workload::Explicit(ops) = plan.workload.clone() {
            if ops.len() > 1 && left(deadline) {
                // try single ops first (the immutable-value case), then halves
                let mut done = false;
                if let Some(name) = v.stage.split(':').next() {
                    for o in ops.iter().filter(|o| o.name() == name).take(8) {
                        let mut c = plan.clone();
                        c.workload = Workload::Explicit(vec![o.clone()]);
                        c.schedule.clear();
                        if same(exe, &c, &sig, &mut tries) {
                            plan = c;
                            steps.push("workload reduced to one op".into());
                            done = true;
                            break;
                        }
                    }
                }
                if !done {
                    let mut cur = ops.clone();
                    let mut chunk = cur.len() / 2;
                    while chunk >= 1 && left(deadline) {
                        let mut i = 0;
                        let mut any = false;
                        while i < cur.len() && left(deadline) {
                            let mut cand = cur.clone();
                            let end = (i + chunk).min(cand.len());
                            cand.drain(i..end);
                            if cand.is_empty() {
                                i += chunk;
                                continue;
                            }
                            let mut c = plan.clone();
                            c.workload = Workload::Explicit(cand.clone());
                            c.schedule.clear(); // regenerated from policy for the new op set
                            if same(exe, &c, &sig, &mut tries) {
                                cur = cand;
                                any = true;
                            } else {
                                i += chunk;
                            }
                        }
                        if !any {
                            chunk /= 2;
                        }
                    }
                    if cur.len() < ops.len() {
                        steps.push(format!("workload {} -> {} ops", ops.len(), cur.len()));
                        plan.workload = Workload::Explicit(cur);
                        plan.schedule.clear();
                    }
                }
            }
        }
        if plan.threads > 2 && left(deadline) {
            for t in [2usize, 3, 4, 8] {
                if t >= plan.threads {
                    break;
                }
                let mut c = plan.clone();
                c.threads = t;
                c.schedule.clear();
                if same(exe, &c, &sig, &mut tries) {
                    steps.push(format!("threads {} -> {}", plan.threads, t));
                    plan = c;
                    break;
                }
            }
        }
        if plan.mode == "threads" && plan.threads >= 2 && left(deadline) {
            let mut c = plan.clone();
            c.threads = 0;
            c.schedule.clear();
            if same(exe, &c, &sig, &mut tries) {
                steps.push("no threads needed (single-thread history suffices)".into());
                plan = c;
            }
        }
        // (4) bake the remaining faults into the bytes and shrink the file structurally
        if left(deadline) && plan.mode != "trunc" {
            let image = plan.image();
            let mut c = plan.clone();
            c.base = image.clone();
            let labels: Vec<String> = c.edits.iter().map(|e| e.label.clone()).collect();
            c.edits.clear();
            if same(exe, &c, &sig, &mut tries) {
                let mut cur = c.base.clone();
                let mut progress = true;
                let mut dropped = 0;
                while progress && left(deadline) {
                    progress = false;
                    let m = format::walk(&cur);
                    if m.frames.is_empty() {
                        break;
                    }
                    if let Some(b) = drop_last_frame(&cur, &m) {
                        let mut cc = c.clone();
                        cc.base = b.clone();
                        if same(exe, &cc, &sig, &mut tries) {
                            cur = b;
                            dropped += 1;
                            progress = true;
                            continue;
                        }
                    }
                    for ci in (0..m.chunks.len()).rev() {
                        if !left(deadline) {
                            break;
                        }
                        if let Some(b) = drop_chunk(&cur, &m, ci) {
                            let mut cc = c.clone();
                            cc.base = b.clone();
                            if same(exe, &cc, &sig, &mut tries) {
                                cur = b;
                                dropped += 1;
                                progress = true;
                                break;
                            }
                        }
                    }
                }
                if dropped > 0 {
                    c.base = cur;
                    c.base_desc = format!("{} [faults baked in: {}; {} frames/chunks dropped]", c.base_desc, labels.join("; "), dropped);
                    steps.push(format!("file shrunk structurally: {} -> {} bytes", image.len(), c.base.len()));
                    plan = c;
                }
            }
        }
    }
    let mut out = plan.to_json();
    out["expected"] = v.to_json();
    out["profile"] = json!(profile);
    out["shrink"] = json!({
        "reproduced_before_shrinking": reproduced,
        "candidates_executed": tries,
        "steps": steps,
        "base_len_before": before.0,
        "faults_before": before.1,
        "base_len_after": plan.base.len(),
        "faults_after": plan.edits.len(),
    });
    Ok(out)
}
