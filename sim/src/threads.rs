//! C16: histories, permutations and seeded thread schedules over a shared `&AsepriteFile`.
//! Real OS threads are parked on a condvar and released one at a time by the seeded baton
//! scheduler: which thread runs next is decided by the simulator, never by the OS.

use crate::exec::{costs_for, load, Facts, Report, COST_CAP, STACK};
use crate::format;
use crate::observe::{self, Costs, Op, OpOutcome};
use crate::plan::{normalise, Plan, Violation, Workload, Wrapper};
use crate::rng::{Digest, Rng};
use crate::simreader::ReaderPlan;
use asefile::AsepriteFile;
use std::collections::BTreeMap;
use std::panic::{catch_unwind, AssertUnwindSafe};
use std::sync::{Condvar, Mutex};

#[derive(Clone, Debug, PartialEq)]
pub enum Out {
    Done(u64),
    Skipped,
    BadDims,
    Panic(String),
}

impl Out {
    fn show(&self) -> String {
        match self {
            Out::Done(d) => format!("{:016x}", d),
            Out::Skipped => "skipped".into(),
            Out::BadDims => "bad-dims".into(),
            Out::Panic(s) => format!("panic({})", s),
        }
    }
}

pub fn exec_out(f: &AsepriteFile, op: &Op, c: &Costs) -> Out {
    match catch_unwind(AssertUnwindSafe(|| observe::exec(f, op, c))) {
        Ok(OpOutcome::Done(d)) => Out::Done(d),
        Ok(OpOutcome::Skipped) => Out::Skipped,
        Ok(OpOutcome::BadDims(_)) => Out::BadDims,
        Err(_) => {
            let (loc, msg) = crate::exec::take_panic_pub();
            Out::Panic(format!("{} {}", loc, normalise(&msg)))
        }
    }
}

pub const POLICIES: &[&str] = &["uniform", "pct", "round-robin", "starve", "bursts"];

/// Generate a baton schedule for `counts[t]` ops per thread under `policy`.
pub fn gen_schedule(r: &mut Rng, counts: &[usize], policy: &str) -> Vec<u8> {
    let t = counts.len();
    let mut left: Vec<usize> = counts.to_vec();
    let total: usize = left.iter().sum();
    let mut out = Vec::with_capacity(total);
    match policy {
        "round-robin" => {
            let mut i = 0;
            while out.len() < total {
                if left[i % t] > 0 {
                    left[i % t] -= 1;
                    out.push((i % t) as u8);
                }
                i += 1;
            }
        }
        "starve" => {
            let victim = r.usize_below(t);
            // everyone else first (uniformly), the victim only at the end
            loop {
                let alive: Vec<usize> = (0..t).filter(|i| *i != victim && left[*i] > 0).collect();
                if alive.is_empty() {
                    break;
                }
                let c = *r.pick(&alive);
                left[c] -= 1;
                out.push(c as u8);
            }
            for _ in 0..left[victim] {
                out.push(victim as u8);
            }
        }
        "pct" => {
            // PCT-style: random priorities, d priority change points
            let mut prio: Vec<u64> = (0..t).map(|_| 1000 + r.below(1000)).collect();
            let d = 1 + r.usize_below(4);
            let mut change: Vec<usize> = (0..d).map(|_| r.usize_below(total.max(1))).collect();
            change.sort();
            let mut low = 999u64;
            for step in 0..total {
                let c = (0..t).filter(|i| left[*i] > 0).max_by_key(|i| prio[*i]).unwrap();
                if change.contains(&step) {
                    prio[c] = low;
                    low -= 1;
                }
                let c = (0..t).filter(|i| left[*i] > 0).max_by_key(|i| prio[*i]).unwrap();
                left[c] -= 1;
                out.push(c as u8);
            }
        }
        "bursts" => {
            while out.len() < total {
                let alive: Vec<usize> = (0..t).filter(|i| left[*i] > 0).collect();
                let c = *r.pick(&alive);
                let n = (1 + r.usize_below(6)).min(left[c]);
                for _ in 0..n {
                    out.push(c as u8);
                }
                left[c] -= n;
            }
        }
        _ => {
            while out.len() < total {
                let alive: Vec<usize> = (0..t).filter(|i| left[*i] > 0).collect();
                let c = *r.pick(&alive);
                left[c] -= 1;
                out.push(c as u8);
            }
        }
    }
    out
}

struct State {
    turn: Option<usize>,
    stop: bool,
    results: Vec<(usize, usize, Out)>, // (thread, op index in S, outcome) in global event order
}

fn viol(prop: &str, kind: &str, stage: &str, msg: &str, detail: String) -> Violation {
    Violation {
        property: prop.into(),
        kind: kind.into(),
        stage: stage.into(),
        site: String::new(),
        msg: msg.into(),
        detail,
    }
}

pub fn materialise_ops(plan: &Plan, a: &AsepriteFile) -> Vec<Op> {
    match &plan.workload {
        Workload::Explicit(o) => o.clone(),
        Workload::None => Vec::new(),
        Workload::Auto(seed) => {
            let mut r = Rng::sub(*seed, "workload");
            // the shape queries of the sweep call accessors themselves: a panic there is C05's
            // business; C16 then works with the random history only
            let mut v = match catch_unwind(AssertUnwindSafe(|| observe::full_ops(a, &mut r.clone()))) {
                Ok(v) => v,
                Err(_) => {
                    let _ = crate::exec::take_panic_pub();
                    Vec::new()
                }
            };
            // keep the sweep but bound it, then add a random history with repeats
            r.shuffle(&mut v);
            v.truncate(60);
            let n = 20 + r.usize_below(100);
            let mut h = observe::random_ops(&mut r, n, a.num_layers(), a.num_frames());
            // "all finite sequences of public API calls" includes calls the documentation says
            // panic: a third of the histories contain a few, at random positions
            if r.chance(1, 3) {
                for _ in 0..1 + r.usize_below(3) {
                    let at = r.usize_below(h.len() + 1);
                    h.insert(at, Op::OutOfRange(r.below(6) as u32));
                }
            }
            // repeats: duplicate a few
            for _ in 0..(n / 4) {
                let k = r.usize_below(h.len());
                let op = h[k].clone();
                h.push(op);
            }
            v.extend(h);
            r.shuffle(&mut v);
            v
        }
    }
}

pub fn run_threads(plan: &Plan, image: &[u8], verbose: bool) -> Report {
    let prop = plan.property.as_str();
    let mut facts = Facts::default();
    facts.evals = 1;
    let rp = ReaderPlan::default();
    // ---- 0. siblings: two *different* sprites alive at the same time must not influence each
    // other (anything shared between sprites and keyed too coarsely shows up here)
    if plan.run % 3 == 0 {
        if let Some(v) = sibling_phase(plan, image, &rp, &mut facts) {
            return Report { violation: Some(v), facts };
        }
    }
    let la = catch_unwind(AssertUnwindSafe(|| load(image, Wrapper::Slice, &rp, None, false, false).0));
    let lb = catch_unwind(AssertUnwindSafe(|| load(image, Wrapper::Cursor, &rp, None, false, false).0));
    let (la, lb) = match (la, lb) {
        (Ok(a), Ok(b)) => (a, b),
        (Err(_), Err(_)) => {
            let _ = crate::exec::take_panic_pub();
            facts.outcome = "panic".into();
            return Report { violation: None, facts };
        }
        _ => {
            return Report {
                violation: Some(viol(prop, "nondeterministic", "load", "load panics on one of two loads of the same bytes", String::new())),
                facts,
            }
        }
    };
    let (a, b) = match (la.result, lb.result) {
        (Ok(a), Ok(b)) => (a, b),
        (Err(ea), Err(eb)) => {
            let (ca, cb) = (crate::exec::err_class(&ea), crate::exec::err_class(&eb));
            facts.outcome = ca.clone();
            if ca != cb {
                return Report {
                    violation: Some(viol(prop, "nondeterministic", "load", "two loads of the same bytes fail differently", format!("{} vs {}", ca, cb))),
                    facts,
                };
            }
            return Report { violation: None, facts };
        }
        (ra, rb) => {
            return Report {
                violation: Some(viol(
                    prop,
                    "nondeterministic",
                    "load",
                    "two loads of the same bytes disagree on success",
                    format!("first ok={} second ok={}", ra.is_ok(), rb.is_ok()),
                )),
                facts,
            }
        }
    };
    facts.outcome = "ok".into();
    facts.loaded = true;
    let map = format::walk(image);
    let costs = costs_for(&map, COST_CAP);
    let ops = materialise_ops(plan, &a);
    if ops.is_empty() {
        return Report { violation: None, facts };
    }
    let mut dg = Digest::new();
    dg.bytes(image);

    // ---- 2. histories on one thread: memo table = the reference model of an immutable value
    let mut memo: BTreeMap<Op, Out> = BTreeMap::new();
    for (i, op) in ops.iter().enumerate() {
        let o = exec_out(&a, op, &costs);
        if let Some(prev) = memo.get(op) {
            if *prev != o {
                return Report {
                    violation: Some(viol(
                        prop,
                        "nondeterministic",
                        op.name(),
                        "repeating a call on the same sprite gave a different result",
                        format!("op #{} {:?}: first {} then {}", i, op, prev.show(), o.show()),
                    )),
                    facts,
                };
            }
        } else {
            if let (Out::Done(d), false) = (&o, matches!(op, Op::DebugFmt)) {
                dg.u64(*d);
            }
            memo.insert(op.clone(), o);
        }
        facts.ops_done += 1;
    }
    // permutation on the second load
    let mut r = Rng::sub(plan.seed ^ plan.run.rotate_left(17), "perm");
    let mut perm: Vec<usize> = (0..ops.len()).collect();
    r.shuffle(&mut perm);
    for i in &perm {
        let op = &ops[*i];
        let o = exec_out(&b, op, &costs);
        facts.ops_done += 1;
        if matches!(op, Op::DebugFmt) {
            continue; // hash-map iteration order: comparable on the same object only
        }
        if memo[op] != o {
            return Report {
                violation: Some(viol(
                    prop,
                    "nondeterministic",
                    op.name(),
                    "a second load of the same bytes / another call order gave a different result",
                    format!("{:?}: first load {} ; second load (permuted order) {}", op, memo[op].show(), o.show()),
                )),
                facts,
            };
        }
    }

    // ---- 3a. baton schedules
    let t = plan.threads.clamp(0, 16);
    if t >= 2 {
        // thread k owns ops k, k+t, k+2t, ... of S
        let owned: Vec<Vec<usize>> = (0..t).map(|k| (k..ops.len()).step_by(t).collect()).collect();
        let counts: Vec<usize> = owned.iter().map(|v| v.len()).collect();
        let schedule: Vec<u8> = if plan.schedule.is_empty() {
            let mut sr = Rng::sub(plan.seed ^ plan.run.rotate_left(29), "schedule");
            gen_schedule(&mut sr, &counts, &plan.sched_policy)
        } else {
            plan.schedule.clone()
        };
        let st = Mutex::new(State {
            turn: None,
            stop: false,
            results: Vec::new(),
        });
        let cv = Condvar::new();
        let aref = &a;
        let opsref = &ops;
        let costsref = &costs;
        let mut bad: Option<(usize, usize, Out)> = None;
        std::thread::scope(|s| {
            for k in 0..t {
                let mine = owned[k].clone();
                let st = &st;
                let cv = &cv;
                std::thread::Builder::new()
                    .stack_size(STACK)
                    .spawn_scoped(s, move || {
                        let mut next = 0usize;
                        loop {
                            let mut g = st.lock().unwrap();
                            while g.turn != Some(k) && !g.stop {
                                g = cv.wait(g).unwrap();
                            }
                            if g.stop {
                                return;
                            }
                            drop(g);
                            let out = if next < mine.len() {
                                let oi = mine[next];
                                next += 1;
                                Some((oi, exec_out(aref, &opsref[oi], costsref)))
                            } else {
                                None
                            };
                            let mut g = st.lock().unwrap();
                            if let Some((oi, o)) = out {
                                g.results.push((k, oi, o));
                            }
                            g.turn = None;
                            cv.notify_all();
                        }
                    })
                    .expect("spawn");
            }
            for (step, th) in schedule.iter().enumerate() {
                let th = *th as usize % t;
                let mut g = st.lock().unwrap();
                g.turn = Some(th);
                cv.notify_all();
                while g.turn.is_some() {
                    g = cv.wait(g).unwrap();
                }
                // invariant after every step: the op's result equals the sequential memo
                if let Some((k, oi, o)) = g.results.last() {
                    if g.results.len() == step + 1 || true {
                        if memo[&ops[*oi]] != *o && bad.is_none() {
                            bad = Some((*k, *oi, o.clone()));
                        }
                    }
                }
                if bad.is_some() {
                    break;
                }
            }
            let mut g = st.lock().unwrap();
            g.stop = true;
            cv.notify_all();
        });
        let g = st.into_inner().unwrap();
        facts.sched_steps = g.results.len() as u64;
        facts.ops_done += g.results.len() as u64;
        let mut sd = Digest::new();
        for x in &schedule {
            sd.byte(*x);
        }
        sd.u64(t as u64);
        facts.distinct.push(sd.finish());
        let active = {
            let mut seen = vec![false; t];
            for (k, _, _) in &g.results {
                seen[*k] = true;
            }
            seen.iter().filter(|x| **x).count()
        };
        facts.nontrivial = active >= 2 && !map.cels.is_empty();
        if verbose {
            eprintln!("baton: {} threads, policy {}, {} steps, schedule prefix {:?}", t, plan.sched_policy, g.results.len(), &schedule[..schedule.len().min(40)]);
        }
        if let Some((k, oi, o)) = bad {
            facts.mat_ops = Some(ops.clone());
            facts.mat_schedule = Some(schedule.clone());
            let mut v = viol(
                prop,
                "nondeterministic",
                ops[oi].name(),
                "a call made from a scheduled thread returned a different result than on one thread",
                format!("thread {} op {:?}: sequential {} ; under schedule {}", k, ops[oi], memo[&ops[oi]].show(), o.show()),
            );
            v.site = "baton".into();
            facts.sample = Some(serde_json::json!({"schedule": schedule, "threads": t}));
            return Report { violation: Some(v), facts };
        }
        dg.u64(sd.finish());
    }
    facts.digest = dg.finish();
    Report { violation: None, facts }
}

/// C16 part 4: one line per run = load outcome + digests of the observation sweep and of the
/// extreme-argument ops, so that listings from different build profiles / processes can be
/// diffed. A panic is printed as such (panic in one profile vs value in another = wrapping
/// arithmetic).
pub fn profile_digest_line(ctx: &crate::props::Ctx, i: u64) -> String {
    use crate::rng::mix;
    let rseed = mix(&[ctx.seed, crate::rng::tag("c16-digest"), i]);
    let mut r = Rng::new(rseed);
    let buggy = r.chance(1, 4);
    let family = r.below(12);
    let base = if family == 2 || family == 3 {
        // every producer-bug / scale family, at moderate sizes: arithmetic that only a long or
        // unusual but well-formed sequence reaches must not depend on the build profile either
        let slow = ["tilemap-huge-extent", "deflate-bomb", "bomb-with-links", "tilemap-bomb-with-links", "tileset-bomb", "indexed-bomb-missing-index"];
        let bugs: Vec<&&str> = crate::spec::BUGS.iter().filter(|b| !slow.contains(*b)).collect();
        let bug = **r.pick(&bugs);
        let scale = match bug {
            "many-palette-packets" | "many-tags" | "many-layers" | "deep-nesting" | "deep-nesting-closed" | "link-chain" => *r.pick(&[3usize, 300, 2500]),
            "many-frames-high-layer" => 20,
            _ => 1,
        };
        crate::props::gen_special(rseed, bug, scale, &mut r)
    } else if family == 0 {
        // hot-reload family: sprites of one of two shapes that differ only in palette colours and
        // pixel values; anything keyed on buffer addresses or shapes that outlives a sprite shows
        // up as a digest that depends on which runs preceded this one in the process
        same_shape_indexed(&mut r)
    } else {
        crate::props::gen_base(ctx, &mut r, buggy, 30, 64 << 10)
    };
    let mut bytes = base.bytes.clone();
    if family == 1 {
        // canvas / header extremes on files that have tilemaps and linked cels
        let fields: Vec<&format::Field> = base
            .map
            .fields
            .iter()
            .filter(|f| f.chunk == "header" && matches!(f.name, "width" | "height" | "transparent-index" | "speed" | "num-colors"))
            .collect();
        if !fields.is_empty() {
            let f = *r.pick(&fields);
            let cur = format::get(&bytes, f.off, f.width);
            let vals = crate::faults::boundary_values(f.width, cur, &[]);
            let v = *r.pick(&vals);
            format::put(&mut bytes, f.off, f.width, v);
        }
    } else if r.chance(1, 4) {
        let other = crate::props::gen_base(ctx, &mut r, false, 0, 64 << 10);
        let (edits, _) = crate::faults::gen_faults(&mut r, &base.bytes, &base.map, &other.bytes, &["field", "bitflip", "byte-set"]);
        let mut p = Plan::new("C16", "threads", ctx.seed, i);
        p.base = bytes;
        p.edits = edits;
        bytes = p.image();
    }
    let l = catch_unwind(AssertUnwindSafe(|| load(&bytes, Wrapper::Slice, &ReaderPlan::default(), None, false, false).0));
    let l = match l {
        Err(_) => {
            let (loc, msg) = crate::exec::take_panic_pub();
            return format!("load-panic {} {}", loc.rsplit('/').next().unwrap_or(""), normalise(&msg));
        }
        Ok(l) => l,
    };
    let f = match l.result {
        Err(e) => return crate::exec::err_class(&e),
        Ok(f) => f,
    };
    let map = format::walk(&bytes);
    let costs = costs_for(&map, COST_CAP);
    let mut wr = Rng::new(rseed ^ 0xABCD);
    let mut ops = match catch_unwind(AssertUnwindSafe(|| observe::full_ops(&f, &mut wr.clone()))) {
        Ok(v) => v,
        Err(_) => {
            let (loc, msg) = crate::exec::take_panic_pub();
            return format!("shape-query-panic {} {}", loc.rsplit('/').next().unwrap_or(""), normalise(&msg));
        }
    };
    ops.extend(observe::random_ops(&mut wr, 40, f.num_layers(), f.num_frames()));
    let mut d = Digest::new();
    let mut panics = 0;
    for op in &ops {
        match exec_out(&f, op, &costs) {
            Out::Done(_) if matches!(op, Op::DebugFmt) => d.byte(3),
            Out::Done(x) => d.u64(x),
            Out::Skipped => d.byte(1),
            Out::BadDims => d.byte(2),
            Out::Panic(s) => {
                panics += 1;
                d.str(&s)
            }
        }
    }
    format!("ok {:016x} ops={} panics={}", d.finish(), ops.len(), panics)
}

/// C16 part 3b, meant to run under Miri (`cargo +nightly miri run -- miri-c16 <seed> <n>`):
/// tiny sprites, 2..3 free-running threads over a shared `&AsepriteFile`; every result is
/// compared with the sequential memo. Miri's own seeded scheduler preempts inside accessors and
/// reports data races / UB. Exit code 1 (via panic) on any difference.
pub fn miri_c16(seed: u64, n: u64) {
    for i in 0..n {
        let rseed = crate::rng::mix(&[seed, crate::rng::tag("miri"), i]);
        let mut r = Rng::new(rseed);
        let spec = crate::spec::gen_tiny_spec(&mut r);
        let bytes = crate::spec::encode(
            &spec,
            &crate::spec::EncOpts {
                seed: rseed,
                neutral: false,
            },
        );
        let f = AsepriteFile::read(&bytes[..]).expect("tiny sprite must load");
        let costs = Costs {
            render: 0,
            debug: 0,
            cap: 1 << 20,
        };
        let (nl, nf) = (f.num_layers(), f.num_frames());
        let mut ops = vec![Op::Meta, Op::Palette, Op::Tilesets, Op::ExtFiles, Op::Tags];
        for fr in 0..nf {
            ops.push(Op::FrameImage(fr));
            for l in 0..nl {
                ops.push(Op::CelImage(fr, l));
                ops.push(Op::CelInfo(fr, l));
                ops.push(Op::Tilemap(l, fr));
            }
        }
        for l in 0..nl {
            ops.push(Op::LayerInfo(l));
            ops.push(Op::VisibleChain(l));
        }
        ops.push(Op::TilesetImage(0));
        ops.push(Op::TileImage(0, 1));
        ops.push(Op::TilemapSweep(0, 0));
        ops.push(Op::TilemapTile(0, 0, 0x8000_0000, 1));
        r.shuffle(&mut ops);
        ops.truncate(10);
        // The reference comes from a *separate* load of the same bytes, so that the sprite the
        // threads share is still untouched: lazily initialised state is then first used concurrently.
        let f_ref = AsepriteFile::read(&bytes[..]).expect("tiny sprite must load");
        let memo: Vec<Out> = ops.iter().map(|op| exec_out(&f_ref, op, &costs)).collect();
        let t = 2 + r.usize_below(2);
        let fr = &f;
        let opsr = &ops;
        let memor = &memo;
        let costsr = &costs;
        std::thread::scope(|s| {
            for k in 0..t {
                s.spawn(move || {
                    // each thread walks the op list from a different rotation
                    for j in 0..opsr.len() {
                        let idx = (j + k * 3) % opsr.len();
                        let o = exec_out(fr, &opsr[idx], costsr);
                        assert!(
                            o == memor[idx],
                            "C16 violation under Miri: thread {} op {:?}: sequential {} concurrent {} (VERIF_SEED={} case={})",
                            k,
                            opsr[idx],
                            memor[idx].show(),
                            o.show(),
                            seed,
                            i
                        );
                    }
                });
            }
        });
        // cold start: a fresh load whose very first use is one accessor called by two threads at
        // once (lazily initialised state is only exposed in this window)
        for first in [Op::FrameImage(0), Op::TileImage(0, 1), Op::TilesetImage(0)] {
            let want_a = exec_out(&f_ref, &first, &costs);
            let second = if matches!(first, Op::FrameImage(_)) { Op::TileImage(0, 0) } else { Op::FrameImage(0) };
            let want_b = exec_out(&f_ref, &second, &costs);
            if want_a == Out::Skipped && want_b == Out::Skipped {
                continue;
            }
            let fresh = AsepriteFile::read(&bytes[..]).expect("tiny sprite must load");
            let (freshr, firstr, secondr, war, wbr) = (&fresh, &first, &second, &want_a, &want_b);
            std::thread::scope(|s| {
                for k in 0..2u32 {
                    s.spawn(move || {
                        let (op, want) = if k == 0 { (firstr, war) } else { (secondr, wbr) };
                        let o = exec_out(freshr, op, costsr);
                        assert!(
                            o == *want,
                            "C16 violation under Miri: concurrent first use, thread {} op {:?}: sequential {} concurrent {} (VERIF_SEED={} case={})",
                            k,
                            op,
                            want.show(),
                            o.show(),
                            seed,
                            i
                        );
                    });
                }
            });
        }
        // ping-pong: each thread renders "its" frame over and over while the others render
        // different ones — the access pattern under which a shared render cache goes wrong
        if nf >= 2 {
            let want: Vec<Out> = (0..nf).map(|fr| exec_out(&f_ref, &Op::FrameImage(fr), &costs)).collect();
            let wantr = &want;
            std::thread::scope(|s| {
                for k in 0..2u32 {
                    s.spawn(move || {
                        for _ in 0..3 {
                            // frames 1 and 9 of a 10-frame sprite share a slot in any 2/4/8-way table
                            let fr_idx = if nf >= 10 { 1 + 8 * k } else { k % nf };
                            let o = exec_out(fr, &Op::FrameImage(fr_idx), costsr);
                            assert!(
                                o == wantr[fr_idx as usize],
                                "C16 violation under Miri: thread {} frame {} image differs from the sequential result (VERIF_SEED={} case={})",
                                k,
                                fr_idx,
                                seed,
                                i
                            );
                        }
                    });
                }
            });
        }
        // second load, equal observations
        let g = AsepriteFile::read(&bytes[..]).expect("tiny sprite must load twice");
        for (idx, op) in ops.iter().enumerate() {
            if matches!(op, Op::DebugFmt) {
                continue;
            }
            let o = exec_out(&g, op, &costs);
            assert!(o == memo[idx], "C16 violation under Miri: second load differs on {:?}", op);
        }
    }
    println!("miri-c16 ok seed={} cases={}", seed, n);
}

fn same_shape_indexed(r: &mut Rng) -> crate::props::Base {
    use crate::spec::*;
    let side: u16 = if r.chance(1, 2) { 128 } else { 144 };
    let ncol = 8usize;
    let s = SpriteSpec {
        width: side,
        height: side,
        fmt: Fmt::Indexed,
        transparent: 0,
        durations: vec![100],
        layers: vec![LayerSpec {
            flags: 1,
            kind: 0,
            tileset: 0,
            level: 0,
            blend: 0,
            opacity: 255,
            name: "bg".into(),
            ud: None,
        }],
        palette: Some(PaletteSpec {
            first: 0,
            entries: (0..ncol).map(|_| ([r.byte(), r.byte(), r.byte(), 255], None)).collect(),
        }),
        legacy: None,
        tilesets: Vec::new(),
        cels: vec![CelSpec {
            frame: 0,
            layer: 0,
            x: 0,
            y: 0,
            opacity: 255,
            body: CelBody::Raw {
                w: side,
                h: side,
                pixels: (0..side as usize * side as usize).map(|i| ((i / 7) % ncol) as u8).collect(),
                compressed: true,
                level: 6,
            },
            ud: None,
            extra: false,
        }],
        tags: Vec::new(),
        tag_ud_count: 0,
        slices: Vec::new(),
        ext_files: Vec::new(),
        color_profile: None,
        sprite_ud: None,
        header_frames_override: None,
    };
    let bytes = encode(&s, &EncOpts { seed: 1, neutral: false });
    let map = format::walk(&bytes);
    crate::props::Base {
        desc: format!("same-shape-indexed:{}", side),
        bytes,
        map,
        bug: None,
    }
}

/// C16 part 3c (complement, NOT schedule-deterministic): free-running OS threads hammer a shared
/// `&AsepriteFile`; every result is compared with the sequential memo. The oracle is sound under
/// any schedule (an immutable value has one answer per call), so this can never raise a false
/// alarm, but which interleavings occur is up to the OS: a hit is replayed by re-running the same
/// stress and is reported as reproduced only if it hits again.
pub fn stress_c16(ctx: &crate::props::Ctx, i: u64, threads: usize, iters: usize) -> Option<String> {
    use crate::rng::mix;
    let rseed = mix(&[ctx.seed, crate::rng::tag("c16-stress"), i]);
    let mut r = Rng::new(rseed);
    // prefer sprites with several frames and layers
    let mut base = crate::props::gen_base(ctx, &mut r, false, 20, 64 << 10);
    for _ in 0..6 {
        if base.map.num_frames_declared >= 2 && base.map.cels.len() >= 2 {
            break;
        }
        base = crate::props::gen_base(ctx, &mut r, false, 20, 64 << 10);
    }
    let l = catch_unwind(AssertUnwindSafe(|| load(&base.bytes, Wrapper::Slice, &ReaderPlan::default(), None, false, false).0));
    let f = match l {
        Ok(l) => match l.result {
            Ok(f) => f,
            Err(_) => return None,
        },
        Err(_) => return None,
    };
    let costs = costs_for(&base.map, COST_CAP);
    let (nl, nf) = (f.num_layers(), f.num_frames());
    let mut ops: Vec<Op> = Vec::new();
    for fr in 0..nf.min(20) {
        ops.push(Op::FrameImage(fr));
        ops.push(Op::FrameInfo(fr));
        for la in 0..nl.min(4) {
            ops.push(Op::CelImage(fr, la));
            ops.push(Op::CelInfo(fr, la));
        }
    }
    for la in 0..nl.min(6) {
        ops.push(Op::LayerInfo(la));
        ops.push(Op::VisibleChain(la));
    }
    ops.extend([Op::Meta, Op::Palette, Op::Tags, Op::Slices, Op::Tilesets, Op::TilesetImage(0), Op::TilemapSweep(0, 0), Op::TilemapImage(0, 0)]);
    // reference from a separate load: the shared sprite is first touched by the threads themselves
    let f_ref = match catch_unwind(AssertUnwindSafe(|| load(&base.bytes, Wrapper::Cursor, &ReaderPlan::default(), None, false, false).0)) {
        Ok(l) => match l.result {
            Ok(f) => f,
            Err(_) => return None,
        },
        Err(_) => return None,
    };
    let memo: Vec<Out> = ops.iter().map(|op| exec_out(&f_ref, op, &costs)).collect();
    // Cold-start volleys: for each kind of accessor a *fresh* load whose very first use is that
    // accessor, called by all threads at the same instant. Lazily initialised state (caches filled
    // on first use) is only ever exposed in this window.
    {
        let volley_ops: Vec<usize> = {
            let mut seen = std::collections::BTreeSet::new();
            let mut v = Vec::new();
            for (i, op) in ops.iter().enumerate() {
                if op.is_render() || matches!(op, Op::Palette | Op::Tilesets | Op::TilemapSweep(..)) {
                    if seen.insert(op.name()) {
                        v.push(i);
                    }
                }
            }
            v
        };
        let rounds = (iters / 16).clamp(1, 40);
        for _ in 0..rounds {
            for &oi in &volley_ops {
                let fresh = match catch_unwind(AssertUnwindSafe(|| load(&base.bytes, Wrapper::Slice, &ReaderPlan::default(), None, false, false).0)) {
                    Ok(l) => match l.result {
                        Ok(f) => f,
                        Err(_) => return None,
                    },
                    Err(_) => return None,
                };
                let gate = std::sync::Barrier::new(threads);
                let hit: Mutex<Option<String>> = Mutex::new(None);
                std::thread::scope(|s| {
                    for k in 0..threads {
                        let (fr, opsr, memor, costsr, gate, hit, descr) = (&fresh, &ops, &memo, &costs, &gate, &hit, &base.desc);
                        s.spawn(move || {
                            // half of the threads take the neighbouring op, so that two different
                            // first uses overlap as well
                            let idx = if k % 2 == 0 { oi } else { volley_pair(opsr, oi) };
                            gate.wait();
                            let o = exec_out(fr, &opsr[idx], costsr);
                            if o != memor[idx] {
                                let mut g = hit.lock().unwrap();
                                if g.is_none() {
                                    *g = Some(format!(
                                        "run {} cold-start volley, thread {} op {:?}: sequential {} ; concurrent first use {} ; base {}",
                                        i,
                                        k,
                                        opsr[idx],
                                        memor[idx].show(),
                                        o.show(),
                                        descr
                                    ));
                                }
                            }
                        });
                    }
                });
                if let Some(m) = hit.into_inner().unwrap() {
                    return Some(m);
                }
            }
        }
    }
    // Concurrent loads: every thread loads, through a reader that yields the processor between small
    // reads, one of three images -- the base, a sibling that differs only in a header field the
    // library does not interpret, and an unrelated sprite -- while the other threads do the same.
    // Each result must equal what the same bytes give when loaded alone: loading the same bytes
    // twice gives equal observations, whatever else the process is loading at the time.
    {
        struct YieldReader<'a> {
            data: &'a [u8],
            pos: usize,
            step: usize,
        }
        impl<'a> std::io::Read for YieldReader<'a> {
            fn read(&mut self, buf: &mut [u8]) -> std::io::Result<usize> {
                std::thread::yield_now();
                let n = buf.len().min(self.step).min(self.data.len() - self.pos);
                buf[..n].copy_from_slice(&self.data[self.pos..self.pos + n]);
                self.pos += n;
                Ok(n)
            }
        }
        fn outcome(r: Result<asefile::AsepriteFile, asefile::AsepriteParseError>, costs: &Costs) -> String {
            match r {
                Err(e) => format!("err:{}", crate::exec::err_class(&e)),
                Ok(f) => match catch_unwind(AssertUnwindSafe(|| crate::exec::observe_digest(&f, costs))) {
                    Ok((d, _, _)) => format!("ok:{:016x}", d),
                    Err(_) => {
                        let _ = crate::exec::take_panic_pub();
                        "accessor-panic".into()
                    }
                },
            }
        }
        let mut sib = base.bytes.clone();
        if let Some(fl) = base.map.fields.iter().find(|f| f.chunk == "header" && f.name == "flags") {
            sib[fl.off] ^= 0x01;
        }
        let other = crate::props::gen_base(ctx, &mut r, false, 20, 64 << 10);
        let images: Vec<(Vec<u8>, Costs)> = vec![
            (base.bytes.clone(), costs.clone()),
            (sib.clone(), costs_for(&crate::format::walk(&sib), COST_CAP)),
            (other.bytes.clone(), costs_for(&other.map, COST_CAP)),
        ];
        let alone: Vec<Option<String>> = images
            .iter()
            .map(|(im, c)| catch_unwind(AssertUnwindSafe(|| outcome(asefile::AsepriteFile::read(&im[..]), c))).ok())
            .collect();
        let hit: Mutex<Option<String>> = Mutex::new(None);
        let gate = std::sync::Barrier::new(threads);
        let rounds = (iters / 40).clamp(1, 6);
        std::thread::scope(|s| {
            for k in 0..threads {
                let (images, alone, hit, gate, descr) = (&images, &alone, &hit, &gate, &base.desc);
                s.spawn(move || {
                    gate.wait();
                    for it in 0..rounds {
                        let idx = (k + it) % images.len();
                        let Some(want) = &alone[idx] else { continue };
                        let (im, c) = &images[idx];
                        let step = [1usize, 3, 16, 64][(k + 2 * it) % 4];
                        let got = catch_unwind(AssertUnwindSafe(|| outcome(asefile::AsepriteFile::read(YieldReader { data: im, pos: 0, step }), c)));
                        let got = match got {
                            Ok(g) => g,
                            Err(_) => {
                                let _ = crate::exec::take_panic_pub();
                                "load-panic".into()
                            }
                        };
                        if &got != want {
                            let mut g = hit.lock().unwrap();
                            if g.is_none() {
                                *g = Some(format!(
                                    "run {} concurrent loads, thread {} image {} ({}): loaded alone {} ; loaded while other threads load {} ; base {}",
                                    i,
                                    k,
                                    idx,
                                    ["base", "sibling differing in the header flags only", "unrelated sprite"][idx],
                                    want,
                                    got,
                                    descr
                                ));
                            }
                            return;
                        }
                    }
                });
            }
        });
        if let Some(m) = hit.into_inner().unwrap() {
            return Some(m);
        }
    }
    let bad: Mutex<Option<String>> = Mutex::new(None);
    let stop = std::sync::atomic::AtomicBool::new(false);
    let gate = std::sync::Barrier::new(threads);
    std::thread::scope(|s| {
        for k in 0..threads {
            let (fr, opsr, memor, costsr, badr, stopr, descr) = (&f, &ops, &memo, &costs, &bad, &stop, &base.desc);
            let mut tr = Rng::new(rseed ^ (k as u64 + 1).wrapping_mul(0x9E37));
            let gate = &gate;
            s.spawn(move || {
                gate.wait();
                for _ in 0..iters {
                    if stopr.load(std::sync::atomic::Ordering::Relaxed) {
                        return;
                    }
                    let idx = tr.usize_below(opsr.len());
                    let o = exec_out(fr, &opsr[idx], costsr);
                    if o != memor[idx] {
                        stopr.store(true, std::sync::atomic::Ordering::Relaxed);
                        let mut g = badr.lock().unwrap();
                        if g.is_none() {
                            *g = Some(format!(
                                "run {} thread {} op {:?}: sequential {} ; concurrent {} ; base {}",
                                i,
                                k,
                                opsr[idx],
                                memor[idx].show(),
                                o.show(),
                                descr
                            ));
                        }
                        return;
                    }
                }
            });
        }
    });
    bad.into_inner().unwrap()
}

/// C16 part 4b: the cross-profile diff over a *systematic* space — every (integer field, boundary
/// value) cell of base `k`. Any arithmetic that is reachable by one boundary value and only
/// "works" by wrapping shows up as panic (checked builds) versus value (release).
pub fn profile_cells(ctx: &crate::props::Ctx, k: u64, out: &mut dyn std::io::Write) {
    let Some(base) = crate::props::c16_cell_base(ctx, k) else { return };
    let bytes0 = base.bytes.clone();
    let crate::props::JobKind::Cells { cells, fields, .. } = crate::props::cells_job(base, false) else { return };
    let rp = ReaderPlan::default();
    for (j, (fi, v)) in cells.iter().enumerate() {
        let e = crate::faults::field_edit(&bytes0, &fields[*fi], *v);
        let mut bytes = bytes0.clone();
        bytes.splice(e.off..e.off + e.del, e.ins.iter().copied());
        let l = catch_unwind(AssertUnwindSafe(|| load(&bytes, Wrapper::Slice, &rp, None, false, false).0));
        let line = match l {
            Err(_) => {
                let (loc, msg) = crate::exec::take_panic_pub();
                format!("load-panic {} {}", loc.rsplit('/').next().unwrap_or(""), normalise(&msg))
            }
            Ok(l) => match l.result {
                Err(e) => crate::exec::err_class(&e),
                Ok(f) => {
                    let map = format::walk(&bytes);
                    let costs = costs_for(&map, 1 << 13);
                    let (nl, nf) = (f.num_layers(), f.num_frames());
                    let mut ops = vec![Op::Meta, Op::Palette, Op::Tags, Op::Slices, Op::Tilesets, Op::ExtFiles, Op::FrameImage(0), Op::FrameImage(1), Op::TilesetImage(0), Op::TileImage(0, 1)];
                    for la in 0..nl.min(6) {
                        ops.push(Op::LayerInfo(la));
                        for fr in 0..nf.min(3) {
                            ops.push(Op::CelInfo(fr, la));
                            ops.push(Op::Tilemap(la, fr));
                        }
                    }
                    ops.push(Op::TilemapSweep(0, 0));
                    ops.push(Op::FrameInfo(nf.saturating_sub(1)));
                    let mut d = Digest::new();
                    let mut panics = 0;
                    for op in &ops {
                        match exec_out(&f, op, &costs) {
                            Out::Done(x) => d.u64(x),
                            Out::Skipped => d.byte(1),
                            Out::BadDims => d.byte(2),
                            Out::Panic(s) => {
                                panics += 1;
                                d.str(&s)
                            }
                        }
                    }
                    format!("ok {:016x} panics={}", d.finish(), panics)
                }
            },
        };
        let _ = writeln!(out, "{}:{} {}", k, j, line);
    }
}

/// A near-copy of `image`: the unfaulted base, the same file with a palette chunk type flipped
/// between the two legacy encodings, with one enum field set to another valid code, or with one
/// byte of a palette / pixel payload changed.
fn sibling_of(plan: &Plan, image: &[u8], r: &mut Rng) -> (Vec<u8>, String) {
    let m = format::walk(image);
    let mut options: Vec<u8> = vec![3];
    if !plan.edits.is_empty() {
        options.push(0);
    }
    if m.chunks.iter().any(|c| c.ctype == 0x0004 || c.ctype == 0x0011) {
        options.push(1);
        options.push(1);
    }
    if m.fields.iter().any(|f| f.kind == format::Kind::Enum) {
        options.push(2);
    }
    let mut b = image.to_vec();
    match *r.pick(&options) {
        0 => (plan.base.clone(), "the unfaulted base file".into()),
        1 => {
            let c = m.chunks.iter().find(|c| c.ctype == 0x0004 || c.ctype == 0x0011).unwrap();
            let new = if c.ctype == 0x0004 { 0x0011u16 } else { 0x0004 };
            format::put16(&mut b, c.off + 4, new);
            (b, format!("legacy palette chunk type {:#06x} -> {:#06x}", c.ctype, new))
        }
        2 => {
            let enums: Vec<&format::Field> = m.fields.iter().filter(|f| f.kind == format::Kind::Enum && f.width == 2).collect();
            if enums.is_empty() {
                return (plan.base.clone(), "the unfaulted base file".into());
            }
            let f = *r.pick(&enums);
            let codes = [0u64, 1, 2, 3, 0x0004, 0x0011, 0x2004, 0x2005, 0x2006, 0x2007, 0x2019, 0x2020];
            let v = *r.pick(&codes);
            format::put(&mut b, f.off, f.width, v);
            (b, format!("{}.{} = {:#x}", f.chunk, f.name, v))
        }
        _ => {
            let pay: Vec<&format::Field> = m.fields.iter().filter(|f| matches!(f.name, "rgba" | "rgb" | "raw-pixels" | "string-bytes")).collect();
            if let Some(f) = pay.first().map(|_| *r.pick(&pay)) {
                let off = f.off + r.usize_below(f.width.max(1));
                if f.name == "string-bytes" {
                    // another letter in a name / text: same shape, same colours, different strings
                    if b[off] < 0x80 {
                        b[off] = b'a' + (b[off].wrapping_add(7) % 26);
                    }
                } else {
                    b[off] = b[off].wrapping_add(1 + r.below(60) as u8) & 0x3f;
                }
                (b, format!("one byte of {}.{} changed", f.chunk, f.name))
            } else {
                (plan.base.clone(), "the unfaulted base file".into())
            }
        }
    }
}

fn obs(bytes: &[u8], rp: &ReaderPlan, costs: &Costs) -> Option<(AsepriteFile, String)> {
    let l = catch_unwind(AssertUnwindSafe(|| load(bytes, Wrapper::Slice, rp, None, false, false).0)).ok()?;
    let f = l.result.ok()?;
    let d = match catch_unwind(AssertUnwindSafe(|| crate::exec::observe_digest(&f, costs))) {
        Ok((d, _, _)) => format!("{:016x}", d),
        Err(_) => {
            let (loc, msg) = crate::exec::take_panic_pub();
            format!("panic {} {}", loc.rsplit('/').next().unwrap_or(""), normalise(&msg))
        }
    };
    Some((f, d))
}

fn sibling_phase(plan: &Plan, image: &[u8], rp: &ReaderPlan, facts: &mut Facts) -> Option<Violation> {
    let mut r = Rng::sub(plan.seed ^ plan.run.rotate_left(11), "sibling");
    let (sib, what) = sibling_of(plan, image, &mut r);
    if sib == image {
        return None;
    }
    let cx = costs_for(&format::walk(image), COST_CAP);
    let cs = costs_for(&format::walk(&sib), COST_CAP);
    // each alone (nothing else alive)
    let x_alone = obs(image, rp, &cx).map(|(_, d)| d)?;
    let s_alone = obs(&sib, rp, &cs).map(|(_, d)| d)?;
    facts.probes.push("sibling-phase-executed".into());
    let prop = plan.property.as_str();
    let mk = |who: &str, alone: &str, together: &str, order: &str| {
        Some(viol(
            prop,
            "nondeterministic",
            "siblings",
            "a sprite's observations depend on another, different sprite being alive",
            format!("{}: alone {} ; {} {} ; sibling = {}", who, alone, order, together, what),
        ))
    };
    // sibling alive while X is loaded and observed
    {
        let (s_keep, _) = obs(&sib, rp, &cs)?;
        let (x_keep, x2) = obs(image, rp, &cx)?;
        if x2 != x_alone {
            return mk("the sprite", &x_alone, &x2, "loaded while its sibling was alive:");
        }
        let s2 = match catch_unwind(AssertUnwindSafe(|| crate::exec::observe_digest(&s_keep, &cs))) {
            Ok((d, _, _)) => format!("{:016x}", d),
            Err(_) => {
                let _ = crate::exec::take_panic_pub();
                s_alone.clone()
            }
        };
        if s2 != s_alone && !s_alone.starts_with("panic") {
            return mk("the sibling", &s_alone, &s2, "after the sprite was loaded next to it:");
        }
        drop(x_keep);
        drop(s_keep);
    }
    // the other order
    {
        let (x_keep, _) = obs(image, rp, &cx)?;
        let (s_keep, s3) = obs(&sib, rp, &cs)?;
        if s3 != s_alone {
            return mk("the sibling", &s_alone, &s3, "loaded while the sprite was alive:");
        }
        drop(s_keep);
        drop(x_keep);
    }
    None
}

/// Another render op to pair with op `oi` in a volley (the next render op in the list, cyclically).
fn volley_pair(ops: &[Op], oi: usize) -> usize {
    for d in 1..ops.len() {
        let j = (oi + d) % ops.len();
        if ops[j].is_render() && ops[j].name() != ops[oi].name() {
            return j;
        }
    }
    oi
}
