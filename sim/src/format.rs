//! Knowledge of the Aseprite container format used by the *harness* (never by the code under
//! test): a lenient chunk walker that derives a field map from any byte string that is
//! structurally an .aseprite file. The same walker is used for generated files and for the
//! GUI-written corpus files, so both get identical field maps.

#[derive(Clone, Copy, Debug, PartialEq, Eq, PartialOrd, Ord, Hash)]
pub enum Kind {
    Magic,
    Length,
    Count,
    Index,
    Offset,
    Enum,
    Flag,
    Size,
    Payload,
    Value,
    Reserved,
}

impl Kind {
    pub fn name(self) -> &'static str {
        match self {
            Kind::Magic => "magic",
            Kind::Length => "length",
            Kind::Count => "count",
            Kind::Index => "index",
            Kind::Offset => "offset",
            Kind::Enum => "enum",
            Kind::Flag => "flag",
            Kind::Size => "size",
            Kind::Payload => "payload",
            Kind::Value => "value",
            Kind::Reserved => "reserved",
        }
    }
    /// Fields whose inflation is what C12 is about.
    pub fn is_sizeish(self) -> bool {
        matches!(self, Kind::Length | Kind::Count | Kind::Size | Kind::Index)
    }
}

#[derive(Clone, Debug)]
pub struct Field {
    pub off: usize,
    pub width: usize, // 1, 2, 4 for integers; arbitrary for payload/reserved
    pub chunk: &'static str, // "header", "frame", "chunk", or chunk type name
    pub name: &'static str,
    pub kind: Kind,
}

#[derive(Clone, Debug)]
pub struct ChunkInfo {
    pub off: usize,
    pub size: usize,
    pub ctype: u16,
    pub frame: usize,
}

#[derive(Clone, Debug, Default)]
pub struct Map {
    pub fields: Vec<Field>,
    pub frames: Vec<(usize, usize)>, // start, end (after last chunk)
    pub chunks: Vec<ChunkInfo>,
    /// End of the last frame as the sequential chunk structure defines it.
    pub end: usize,
    /// True if the whole declared structure was walked without running out of bytes.
    pub complete: bool,
    pub problem: Option<String>,
    // summary numbers used for work estimates / reference-aware faults
    pub canvas: (u16, u16),
    pub depth: u16,
    pub num_layers: usize,
    pub num_frames_declared: u16,
    pub tilesets: Vec<TilesetSummary>,
    pub cels: Vec<CelSummary>,
    pub layer_kinds: Vec<(u16, u32)>, // (layer type, tileset idx)
}

#[derive(Clone, Debug)]
pub struct TilesetSummary {
    pub id: u32,
    pub count: u32,
    pub tw: u16,
    pub th: u16,
}

#[derive(Clone, Debug)]
pub struct CelSummary {
    pub frame: usize,
    pub layer: u16,
    pub ctype: u16,
    pub w: u16,
    pub h: u16,
    pub link: u16,
}

pub fn chunk_name(t: u16) -> &'static str {
    match t {
        0x0004 => "oldpal04",
        0x0011 => "oldpal11",
        0x2004 => "layer",
        0x2005 => "cel",
        0x2006 => "celextra",
        0x2007 => "colorprofile",
        0x2008 => "extfiles",
        0x2016 => "mask",
        0x2017 => "path",
        0x2018 => "tags",
        0x2019 => "palette",
        0x2020 => "userdata",
        0x2022 => "slice",
        0x2023 => "tileset",
        _ => "unknown",
    }
}

struct W<'a> {
    b: &'a [u8],
    pos: usize,
    end: usize, // exclusive bound for the current scope
    chunk: &'static str,
    fields: &'a mut Vec<Field>,
}

impl<'a> W<'a> {
    fn left(&self) -> usize {
        self.end.saturating_sub(self.pos)
    }
    fn int(&mut self, width: usize, name: &'static str, kind: Kind) -> Option<u64> {
        if self.left() < width {
            self.pos = self.end;
            return None;
        }
        let mut v: u64 = 0;
        for i in 0..width {
            v |= (self.b[self.pos + i] as u64) << (8 * i);
        }
        self.fields.push(Field {
            off: self.pos,
            width,
            chunk: self.chunk,
            name,
            kind,
        });
        self.pos += width;
        Some(v)
    }
    fn u8(&mut self, n: &'static str, k: Kind) -> Option<u64> {
        self.int(1, n, k)
    }
    fn u16(&mut self, n: &'static str, k: Kind) -> Option<u64> {
        self.int(2, n, k)
    }
    fn u32(&mut self, n: &'static str, k: Kind) -> Option<u64> {
        self.int(4, n, k)
    }
    fn blob(&mut self, len: usize, name: &'static str, kind: Kind) -> Option<()> {
        if self.left() < len {
            self.pos = self.end;
            return None;
        }
        if len > 0 {
            self.fields.push(Field {
                off: self.pos,
                width: len,
                chunk: self.chunk,
                name,
                kind,
            });
        }
        self.pos += len;
        Some(())
    }
    fn rest(&mut self, name: &'static str, kind: Kind) {
        let l = self.left();
        let _ = self.blob(l, name, kind);
    }
    fn string(&mut self, name: &'static str) -> Option<()> {
        let l = self.u16(name, Kind::Length)? as usize;
        self.blob(l, "string-bytes", Kind::Payload)
    }
}

/// Walk a byte string. Never panics; `complete` tells whether the declared structure fit.
pub fn walk(b: &[u8]) -> Map {
    let mut m = Map::default();
    let mut fields = Vec::new();
    let r = walk_inner(b, &mut m, &mut fields);
    m.fields = fields;
    match r {
        Ok(()) => m.complete = true,
        Err(e) => {
            m.complete = false;
            m.problem = Some(e);
        }
    }
    m
}

fn walk_inner(b: &[u8], m: &mut Map, fields: &mut Vec<Field>) -> Result<(), String> {
    let nframes;
    {
        let mut w = W {
            b,
            pos: 0,
            end: b.len().min(128),
            chunk: "header",
            fields,
        };
        let e = || "short header".to_string();
        w.u32("file-size", Kind::Size).ok_or_else(e)?;
        let magic = w.u16("magic", Kind::Magic).ok_or_else(e)?;
        if magic != 0xA5E0 {
            return Err("bad magic".into());
        }
        nframes = w.u16("frames", Kind::Count).ok_or_else(e)? as u16;
        let cw = w.u16("width", Kind::Size).ok_or_else(e)? as u16;
        let ch = w.u16("height", Kind::Size).ok_or_else(e)? as u16;
        m.canvas = (cw, ch);
        m.depth = w.u16("depth", Kind::Enum).ok_or_else(e)? as u16;
        w.u32("flags", Kind::Flag).ok_or_else(e)?;
        w.u16("speed", Kind::Value).ok_or_else(e)?;
        w.u32("zero1", Kind::Reserved).ok_or_else(e)?;
        w.u32("zero2", Kind::Reserved).ok_or_else(e)?;
        w.u8("transparent-index", Kind::Index).ok_or_else(e)?;
        w.blob(3, "ignore", Kind::Reserved).ok_or_else(e)?;
        w.u16("num-colors", Kind::Count).ok_or_else(e)?;
        w.u8("pixel-width", Kind::Value).ok_or_else(e)?;
        w.u8("pixel-height", Kind::Value).ok_or_else(e)?;
        w.u16("grid-x", Kind::Offset).ok_or_else(e)?;
        w.u16("grid-y", Kind::Offset).ok_or_else(e)?;
        w.u16("grid-w", Kind::Size).ok_or_else(e)?;
        w.u16("grid-h", Kind::Size).ok_or_else(e)?;
        w.blob(84, "reserved", Kind::Reserved).ok_or_else(e)?;
    }
    m.num_frames_declared = nframes;
    m.end = 128;
    let mut pos = 128usize;
    for f in 0..nframes as usize {
        let fstart = pos;
        let nchunks;
        {
            let mut w = W {
                b,
                pos,
                end: b.len(),
                chunk: "frame",
                fields,
            };
            let e = || format!("short frame header {}", f);
            w.u32("frame-bytes", Kind::Size).ok_or_else(e)?;
            let magic = w.u16("frame-magic", Kind::Magic).ok_or_else(e)?;
            if magic != 0xF1FA {
                return Err(format!("bad frame magic {}", f));
            }
            let old = w.u16("old-chunks", Kind::Count).ok_or_else(e)?;
            w.u16("duration", Kind::Value).ok_or_else(e)?;
            w.blob(2, "reserved", Kind::Reserved).ok_or_else(e)?;
            let new = w.u32("new-chunks", Kind::Count).ok_or_else(e)?;
            nchunks = if new == 0 { old } else { new };
            pos = w.pos;
        }
        for _ in 0..nchunks {
            let cstart = pos;
            let (size, ctype);
            {
                let mut w = W {
                    b,
                    pos,
                    end: b.len(),
                    chunk: "chunk",
                    fields,
                };
                let e = || format!("short chunk header at {}", cstart);
                size = w.u32("chunk-size", Kind::Size).ok_or_else(e)? as usize;
                ctype = w.u16("chunk-type", Kind::Enum).ok_or_else(e)? as u16;
                pos = w.pos;
            }
            if size < 6 {
                return Err(format!("chunk size {} < 6 at {}", size, cstart));
            }
            let cend = cstart.checked_add(size).ok_or("overflow")?;
            if cend > b.len() {
                // describe what is there, then stop
                let mut w = W {
                    b,
                    pos,
                    end: b.len(),
                    chunk: chunk_name(ctype),
                    fields,
                };
                walk_chunk(&mut w, ctype, f, m);
                return Err(format!("chunk at {} exceeds input", cstart));
            }
            m.chunks.push(ChunkInfo {
                off: cstart,
                size,
                ctype,
                frame: f,
            });
            let mut w = W {
                b,
                pos,
                end: cend,
                chunk: chunk_name(ctype),
                fields,
            };
            walk_chunk(&mut w, ctype, f, m);
            pos = cend;
        }
        m.frames.push((fstart, pos));
        m.end = pos;
    }
    Ok(())
}

fn walk_chunk(w: &mut W, ctype: u16, frame: usize, m: &mut Map) {
    let _ = walk_chunk_inner(w, ctype, frame, m);
    if w.left() > 0 {
        w.rest("trailing", Kind::Reserved);
    }
}

fn walk_chunk_inner(w: &mut W, ctype: u16, frame: usize, m: &mut Map) -> Option<()> {
    match ctype {
        0x2004 => {
            w.u16("flags", Kind::Flag)?;
            let lt = w.u16("layer-type", Kind::Enum)?;
            w.u16("child-level", Kind::Index)?;
            w.u16("default-w", Kind::Size)?;
            w.u16("default-h", Kind::Size)?;
            w.u16("blend-mode", Kind::Enum)?;
            w.u8("opacity", Kind::Value)?;
            w.blob(3, "reserved", Kind::Reserved)?;
            m.num_layers += 1;
            m.layer_kinds.push((lt as u16, 0));
            w.string("name-len")?;
            if lt == 2 {
                let ts = w.u32("tileset-index", Kind::Index)?;
                if let Some(l) = m.layer_kinds.last_mut() {
                    l.1 = ts as u32;
                }
            }
        }
        0x2005 => {
            let layer = w.u16("layer-index", Kind::Index)?;
            w.u16("x", Kind::Offset)?;
            w.u16("y", Kind::Offset)?;
            w.u8("opacity", Kind::Value)?;
            let ct = w.u16("cel-type", Kind::Enum)?;
            // Aseprite 1.3 stores a signed z-index here (the pinned tree ignores it)
            w.u16("z-index", Kind::Index)?;
            w.blob(5, "reserved", Kind::Reserved)?;
            let mut cs = CelSummary {
                frame,
                layer: layer as u16,
                ctype: ct as u16,
                w: 0,
                h: 0,
                link: 0,
            };
            match ct {
                0 => {
                    cs.w = w.u16("cel-w", Kind::Size)? as u16;
                    cs.h = w.u16("cel-h", Kind::Size)? as u16;
                    m.cels.push(cs);
                    w.rest("raw-pixels", Kind::Payload);
                }
                1 => {
                    cs.link = w.u16("link-frame", Kind::Index)? as u16;
                    m.cels.push(cs);
                }
                2 => {
                    cs.w = w.u16("cel-w", Kind::Size)? as u16;
                    cs.h = w.u16("cel-h", Kind::Size)? as u16;
                    m.cels.push(cs);
                    w.rest("zlib-pixels", Kind::Payload);
                }
                3 => {
                    cs.w = w.u16("tilemap-w", Kind::Size)? as u16;
                    cs.h = w.u16("tilemap-h", Kind::Size)? as u16;
                    m.cels.push(cs);
                    w.u16("bits-per-tile", Kind::Enum)?;
                    w.u32("mask-id", Kind::Flag)?;
                    w.u32("mask-xflip", Kind::Flag)?;
                    w.u32("mask-yflip", Kind::Flag)?;
                    w.u32("mask-rot", Kind::Flag)?;
                    w.blob(10, "reserved", Kind::Reserved)?;
                    w.rest("zlib-tiles", Kind::Payload);
                }
                _ => {
                    m.cels.push(cs);
                }
            }
        }
        0x2006 => {
            w.u32("flags", Kind::Flag)?;
            w.u32("fx", Kind::Value)?;
            w.u32("fy", Kind::Value)?;
            w.u32("fw", Kind::Value)?;
            w.u32("fh", Kind::Value)?;
            w.blob(16, "reserved", Kind::Reserved)?;
        }
        0x2007 => {
            let t = w.u16("profile-type", Kind::Enum)?;
            w.u16("flags", Kind::Flag)?;
            w.u32("gamma", Kind::Value)?;
            w.blob(8, "reserved", Kind::Reserved)?;
            if t == 2 {
                let l = w.u32("icc-len", Kind::Length)? as usize;
                if l >= 4 && w.left() >= l {
                    // an ICC profile starts with its own size, big-endian: a second copy of the
                    // length that a reader may compare the first one with
                    w.fields.push(Field {
                        off: w.pos,
                        width: 4,
                        chunk: w.chunk,
                        name: "icc-size-be",
                        kind: Kind::Length,
                    });
                    w.pos += 4;
                    w.blob(l - 4, "icc", Kind::Payload)?;
                } else {
                    w.blob(l, "icc", Kind::Payload)?;
                }
            }
        }
        0x2008 => {
            let n = w.u32("entries", Kind::Count)?;
            w.blob(8, "reserved", Kind::Reserved)?;
            for _ in 0..n.min(4096) {
                w.u32("entry-id", Kind::Index)?;
                w.u8("entry-type", Kind::Enum)?;
                w.blob(7, "reserved", Kind::Reserved)?;
                w.string("entry-name-len")?;
            }
        }
        0x2016 => {
            w.u16("x", Kind::Offset)?;
            w.u16("y", Kind::Offset)?;
            w.u16("w", Kind::Size)?;
            w.u16("h", Kind::Size)?;
            w.blob(8, "reserved", Kind::Reserved)?;
            w.string("name-len")?;
            w.rest("bitmap", Kind::Payload);
        }
        0x2018 => {
            let n = w.u16("tags", Kind::Count)?;
            w.blob(8, "reserved", Kind::Reserved)?;
            for _ in 0..n {
                w.u16("from", Kind::Index)?;
                w.u16("to", Kind::Index)?;
                w.u8("direction", Kind::Enum)?;
                w.u16("repeat", Kind::Count)?;
                w.blob(6, "reserved", Kind::Reserved)?;
                w.blob(3, "color", Kind::Value)?;
                w.u8("extra", Kind::Reserved)?;
                w.string("name-len")?;
            }
        }
        0x2019 => {
            w.u32("pal-size", Kind::Count)?;
            let first = w.u32("first", Kind::Index)?;
            let last = w.u32("last", Kind::Index)?;
            w.blob(8, "reserved", Kind::Reserved)?;
            let n = last.wrapping_sub(first).wrapping_add(1) & 0xFFFF_FFFF;
            for _ in 0..n.min(70000) {
                let fl = w.u16("entry-flags", Kind::Flag)?;
                w.blob(4, "rgba", Kind::Value)?;
                if fl & 1 == 1 {
                    w.string("entry-name-len")?;
                }
            }
        }
        0x2020 => {
            let fl = w.u32("flags", Kind::Flag)?;
            if fl & 1 != 0 {
                w.string("text-len")?;
            }
            if fl & 2 != 0 {
                w.blob(4, "color", Kind::Value)?;
            }
            if fl & 4 != 0 {
                // property maps (Aseprite 1.3): the head of the recursive structure is mapped so
                // that its lengths, counts and type codes are corrupted like any other field
                w.u32("props-size", Kind::Length)?;
                let maps = w.u32("props-maps", Kind::Count)?;
                if maps > 0 {
                    w.u32("props-map-key", Kind::Index)?;
                    let n = w.u32("props-count", Kind::Count)?;
                    if n > 0 {
                        w.string("prop-name-len")?;
                        let ty = w.u16("prop-type", Kind::Enum)?;
                        if ty == 0x11 {
                            w.u32("prop-vec-count", Kind::Count)?;
                            w.u16("prop-vec-type", Kind::Enum)?;
                        } else if ty == 0x12 {
                            w.u32("prop-map-count", Kind::Count)?;
                        }
                    }
                }
            }
        }
        0x2022 => {
            let n = w.u32("keys", Kind::Count)?;
            let fl = w.u32("flags", Kind::Flag)?;
            w.u32("reserved", Kind::Reserved)?;
            w.string("name-len")?;
            for _ in 0..n.min(70000) {
                w.u32("key-frame", Kind::Index)?;
                w.u32("key-x", Kind::Offset)?;
                w.u32("key-y", Kind::Offset)?;
                w.u32("key-w", Kind::Size)?;
                w.u32("key-h", Kind::Size)?;
                if fl & 1 != 0 {
                    w.u32("cx", Kind::Offset)?;
                    w.u32("cy", Kind::Offset)?;
                    w.u32("cw", Kind::Size)?;
                    w.u32("ch", Kind::Size)?;
                }
                if fl & 2 != 0 {
                    w.u32("px", Kind::Offset)?;
                    w.u32("py", Kind::Offset)?;
                }
            }
        }
        0x2023 => {
            let id = w.u32("tileset-id", Kind::Index)?;
            let fl = w.u32("flags", Kind::Flag)?;
            let count = w.u32("tile-count", Kind::Count)?;
            let tw = w.u16("tile-w", Kind::Size)?;
            let th = w.u16("tile-h", Kind::Size)?;
            w.u16("base-index", Kind::Value)?;
            w.blob(14, "reserved", Kind::Reserved)?;
            m.tilesets.push(TilesetSummary {
                id: id as u32,
                count: count as u32,
                tw: tw as u16,
                th: th as u16,
            });
            w.string("name-len")?;
            if fl & 1 != 0 {
                w.u32("ext-file-id", Kind::Index)?;
                w.u32("ext-tileset-id", Kind::Index)?;
            }
            if fl & 2 != 0 {
                w.u32("compressed-len", Kind::Length)?;
                w.rest("zlib-tiles-pixels", Kind::Payload);
            }
        }
        0x0004 | 0x0011 => {
            let n = w.u16("packets", Kind::Count)?;
            for _ in 0..n {
                w.u8("skip", Kind::Offset)?;
                let c = w.u8("count", Kind::Count)?;
                let c = if c == 0 { 256 } else { c as usize };
                w.blob(3 * c, "rgb", Kind::Value)?;
            }
        }
        _ => {}
    }
    Some(())
}

/// Upper bound (in blend steps) of the most expensive single render the public API can ask of
/// a sprite with this structure, used only to skip ops that are legitimately huge.
pub fn render_cost(m: &Map) -> u64 {
    let canvas = m.canvas.0 as u64 * m.canvas.1 as u64;
    let max_tile_area = m
        .tilesets
        .iter()
        .map(|t| t.tw as u64 * t.th as u64)
        .max()
        .unwrap_or(0);
    let mut per_frame: std::collections::BTreeMap<usize, u64> = std::collections::BTreeMap::new();
    let mut total_cels: u64 = 0;
    for c in &m.cels {
        let cost = match c.ctype {
            0 | 2 => c.w as u64 * c.h as u64,
            3 => (c.w as u64 * c.h as u64).saturating_mul(max_tile_area.max(1)),
            _ => 0,
        };
        total_cels = total_cels.saturating_add(cost);
        let e = per_frame.entry(c.frame).or_insert(0);
        *e = e.saturating_add(cost);
    }
    // Linked cels re-render their target: bound every frame by the sum over all cels.
    let _ = per_frame;
    canvas.saturating_add(total_cels)
}

pub fn put16(b: &mut [u8], off: usize, v: u16) {
    b[off..off + 2].copy_from_slice(&v.to_le_bytes());
}
pub fn put32(b: &mut [u8], off: usize, v: u32) {
    b[off..off + 4].copy_from_slice(&v.to_le_bytes());
}
pub fn get(b: &[u8], off: usize, width: usize) -> u64 {
    let mut v = 0u64;
    for i in 0..width {
        v |= (b[off + i] as u64) << (8 * i);
    }
    v
}
pub fn put(b: &mut [u8], off: usize, width: usize, v: u64) {
    for i in 0..width {
        b[off + i] = (v >> (8 * i)) as u8;
    }
}
