//! Allocator seam: a `#[global_allocator]` wrapping `System`. Per-thread counters are active only
//! inside a tracked scope (around `AsepriteFile::read` / accessor calls) and can be paused for
//! the harness's own allocations on that thread.
//!
//! Two modes:
//!  * count   — serve everything, record live bytes / peak / largest request (C12 measures);
//!  * machine — additionally refuse (return null => Rust aborts the process) any request that
//!              would take the scope's live bytes above the simulated machine size, so that
//!              "aborts through allocation failure" is decided the same way on every host.

use std::alloc::{GlobalAlloc, Layout, System};
use std::cell::Cell;

pub struct Tracking;

thread_local! {
    static ACTIVE: Cell<bool> = const { Cell::new(false) };
    static PAUSE: Cell<u32> = const { Cell::new(0) };
    static LIVE: Cell<i64> = const { Cell::new(0) };
    static PEAK: Cell<i64> = const { Cell::new(0) };
    static LARGEST: Cell<u64> = const { Cell::new(0) };
    static COUNT: Cell<u64> = const { Cell::new(0) };
    static LIMIT: Cell<i64> = const { Cell::new(i64::MAX) };
    static REFUSED: Cell<u64> = const { Cell::new(0) };
    // first request that exceeded `WATCH` bytes of live memory (for call-site capture)
    static WATCH: Cell<i64> = const { Cell::new(i64::MAX) };
    static WATCH_HIT: Cell<bool> = const { Cell::new(false) };
    static WATCH_CAPTURE: Cell<bool> = const { Cell::new(false) };
    static WATCH_BT: std::cell::RefCell<Option<String>> = const { std::cell::RefCell::new(None) };
}

#[inline]
fn on_alloc(size: usize) -> bool {
    // returns false if the request must be refused
    let active = ACTIVE.try_with(|a| a.get()).unwrap_or(false);
    if !active || PAUSE.with(|p| p.get()) > 0 {
        return true;
    }
    let live = LIVE.with(|l| l.get()).saturating_add(size as i64);
    if live > LIMIT.with(|l| l.get()) {
        REFUSED.with(|r| r.set(size as u64));
        refusal_record(size, live);
        return false;
    }
    LIVE.with(|l| l.set(live));
    if live > PEAK.with(|p| p.get()) {
        PEAK.with(|p| p.set(live));
    }
    if size as u64 > LARGEST.with(|p| p.get()) {
        LARGEST.with(|p| p.set(size as u64));
    }
    COUNT.with(|c| c.set(c.get() + 1));
    if live > WATCH.with(|w| w.get()) && !WATCH_HIT.with(|w| w.get()) {
        WATCH_HIT.with(|w| w.set(true));
        if WATCH_CAPTURE.with(|w| w.get()) {
            PAUSE.with(|p| p.set(p.get() + 1));
            let bt = std::backtrace::Backtrace::force_capture().to_string();
            let _ = WATCH_BT.try_with(|b| *b.borrow_mut() = Some(bt));
            PAUSE.with(|p| p.set(p.get() - 1));
        }
    }
    true
}

#[inline]
fn on_free(size: usize) {
    let active = ACTIVE.try_with(|a| a.get()).unwrap_or(false);
    if !active || PAUSE.with(|p| p.get()) > 0 {
        return;
    }
    LIVE.with(|l| l.set(l.get() - size as i64));
}

/// Write "ALLOC-REFUSED size=.. live=..\n" to stderr without allocating.
fn refusal_record(size: usize, live: i64) {
    let mut buf = [0u8; 96];
    let mut n = 0;
    let mut put = |s: &[u8], n: &mut usize| {
        for b in s {
            if *n < buf.len() {
                buf[*n] = *b;
                *n += 1;
            }
        }
    };
    put(b"ALLOC-REFUSED size=", &mut n);
    put_num(size as u64, &mut put, &mut n);
    put(b" live=", &mut n);
    put_num(live as u64, &mut put, &mut n);
    put(b"\n", &mut n);
    unsafe {
        libc::write(2, buf.as_ptr() as *const libc::c_void, n);
    }
}

fn put_num(mut v: u64, put: &mut impl FnMut(&[u8], &mut usize), n: &mut usize) {
    let mut d = [0u8; 20];
    let mut i = 20;
    if v == 0 {
        i -= 1;
        d[i] = b'0';
    }
    while v > 0 {
        i -= 1;
        d[i] = b'0' + (v % 10) as u8;
        v /= 10;
    }
    put(&d[i..], n);
}

unsafe impl GlobalAlloc for Tracking {
    unsafe fn alloc(&self, layout: Layout) -> *mut u8 {
        if !on_alloc(layout.size()) {
            return std::ptr::null_mut();
        }
        System.alloc(layout)
    }
    unsafe fn alloc_zeroed(&self, layout: Layout) -> *mut u8 {
        if !on_alloc(layout.size()) {
            return std::ptr::null_mut();
        }
        System.alloc_zeroed(layout)
    }
    unsafe fn dealloc(&self, ptr: *mut u8, layout: Layout) {
        on_free(layout.size());
        System.dealloc(ptr, layout)
    }
    unsafe fn realloc(&self, ptr: *mut u8, layout: Layout, new_size: usize) -> *mut u8 {
        // account as free(old) + alloc(new); peak is therefore a slight under-estimate of a
        // copying realloc and exact for an in-place one.
        on_free(layout.size());
        if !on_alloc(new_size) {
            // undo the free so counters stay consistent if the caller survives
            let active = ACTIVE.try_with(|a| a.get()).unwrap_or(false);
            if active && PAUSE.with(|p| p.get()) == 0 {
                LIVE.with(|l| l.set(l.get() + layout.size() as i64));
            }
            return std::ptr::null_mut();
        }
        System.realloc(ptr, layout, new_size)
    }
}

#[derive(Clone, Copy, Debug, Default)]
pub struct Stats {
    pub peak: u64,
    pub largest: u64,
    pub count: u64,
    pub live_end: i64,
    pub watch_hit: bool,
}

/// Run `f` inside a tracked scope on the current thread.
pub fn tracked<T>(limit: Option<u64>, watch: Option<u64>, f: impl FnOnce() -> T) -> (T, Stats) {
    LIVE.with(|l| l.set(0));
    PEAK.with(|l| l.set(0));
    LARGEST.with(|l| l.set(0));
    COUNT.with(|l| l.set(0));
    REFUSED.with(|l| l.set(0));
    WATCH_HIT.with(|l| l.set(false));
    LIMIT.with(|l| l.set(limit.map(|x| x.min(i64::MAX as u64) as i64).unwrap_or(i64::MAX)));
    WATCH.with(|l| l.set(watch.map(|x| x.min(i64::MAX as u64) as i64).unwrap_or(i64::MAX)));
    struct Guard;
    impl Drop for Guard {
        fn drop(&mut self) {
            ACTIVE.with(|a| a.set(false));
        }
    }
    ACTIVE.with(|a| a.set(true));
    let g = Guard;
    let r = f();
    drop(g);
    let st = Stats {
        peak: PEAK.with(|p| p.get()).max(0) as u64,
        largest: LARGEST.with(|p| p.get()),
        count: COUNT.with(|p| p.get()),
        live_end: LIVE.with(|p| p.get()),
        watch_hit: WATCH_HIT.with(|p| p.get()),
    };
    (r, st)
}

/// Peak so far inside the current scope (used by the reader seam to sample).
pub fn current_peak() -> u64 {
    PEAK.with(|p| p.get()).max(0) as u64
}

pub struct Paused;
pub fn pause() -> Paused {
    PAUSE.with(|p| p.set(p.get() + 1));
    Paused
}
impl Drop for Paused {
    fn drop(&mut self) {
        PAUSE.with(|p| p.set(p.get() - 1));
    }
}

/// Diagnostic scope: capture a backtrace at the first allocation that takes live bytes above
/// `threshold` (used only after a violation was found, to name the call site).
pub fn tracked_watch<T>(threshold: u64, f: impl FnOnce() -> T) -> (T, Stats) {
    WATCH_CAPTURE.with(|w| w.set(true));
    let r = tracked(None, Some(threshold), f);
    WATCH_CAPTURE.with(|w| w.set(false));
    r
}

pub fn take_watch_backtrace() -> Option<String> {
    WATCH_BT.with(|b| b.borrow_mut().take())
}
