//! Reader seam: `SimReader` implements `std::io::Read` over the simulated disk image under an
//! explicit, replayable schedule of short reads, EINTRs and one hard error. It deliberately does
//! NOT override `read_exact` / `read_to_end`, so std's default loops run on top of it.

use crate::rng::{Digest, Rng};
use std::io::{self, Read};

#[derive(Clone, Copy, Debug, PartialEq, Eq, PartialOrd, Ord, Hash)]
pub enum ErrKind {
    BrokenPipe,
    ConnectionReset,
    TimedOut,
    WouldBlock,
    PermissionDenied,
    Other,
    UnexpectedEof,
    InvalidData,
    RawEio,
    RawEnospc,
    InvalidInput,
    NotFound,
    ConnectionAborted,
    Unsupported,
    OutOfMemory,
    RawEbadf,
}

pub const ERR_KINDS: &[ErrKind] = &[
    ErrKind::BrokenPipe,
    ErrKind::ConnectionReset,
    ErrKind::TimedOut,
    ErrKind::WouldBlock,
    ErrKind::PermissionDenied,
    ErrKind::Other,
    ErrKind::UnexpectedEof,
    ErrKind::InvalidData,
    ErrKind::RawEio,
    ErrKind::RawEnospc,
    ErrKind::InvalidInput,
    ErrKind::NotFound,
    ErrKind::ConnectionAborted,
    ErrKind::Unsupported,
    ErrKind::OutOfMemory,
    ErrKind::RawEbadf,
];

impl ErrKind {
    pub fn name(self) -> &'static str {
        match self {
            ErrKind::BrokenPipe => "BrokenPipe",
            ErrKind::ConnectionReset => "ConnectionReset",
            ErrKind::TimedOut => "TimedOut",
            ErrKind::WouldBlock => "WouldBlock",
            ErrKind::PermissionDenied => "PermissionDenied",
            ErrKind::Other => "Other",
            ErrKind::UnexpectedEof => "UnexpectedEof",
            ErrKind::InvalidData => "InvalidData",
            ErrKind::RawEio => "RawEIO",
            ErrKind::RawEnospc => "RawENOSPC",
            ErrKind::InvalidInput => "InvalidInput",
            ErrKind::NotFound => "NotFound",
            ErrKind::ConnectionAborted => "ConnectionAborted",
            ErrKind::Unsupported => "Unsupported",
            ErrKind::OutOfMemory => "OutOfMemory",
            ErrKind::RawEbadf => "RawEBADF",
        }
    }
    pub fn parse(s: &str) -> Option<ErrKind> {
        ERR_KINDS.iter().copied().find(|k| k.name() == s)
    }
    pub fn make(self) -> io::Error {
        match self {
            ErrKind::BrokenPipe => io::Error::new(io::ErrorKind::BrokenPipe, SimIoError),
            ErrKind::ConnectionReset => io::Error::new(io::ErrorKind::ConnectionReset, SimIoError),
            ErrKind::TimedOut => io::Error::new(io::ErrorKind::TimedOut, SimIoError),
            ErrKind::WouldBlock => io::Error::new(io::ErrorKind::WouldBlock, SimIoError),
            ErrKind::PermissionDenied => io::Error::new(io::ErrorKind::PermissionDenied, SimIoError),
            ErrKind::Other => io::Error::new(io::ErrorKind::Other, SimIoError),
            ErrKind::UnexpectedEof => io::Error::new(io::ErrorKind::UnexpectedEof, SimIoError),
            ErrKind::InvalidData => io::Error::new(io::ErrorKind::InvalidData, SimIoError),
            ErrKind::RawEio => io::Error::from_raw_os_error(libc::EIO),
            ErrKind::RawEnospc => io::Error::from_raw_os_error(libc::ENOSPC),
            ErrKind::InvalidInput => io::Error::new(io::ErrorKind::InvalidInput, SimIoError),
            ErrKind::NotFound => io::Error::new(io::ErrorKind::NotFound, SimIoError),
            ErrKind::ConnectionAborted => io::Error::new(io::ErrorKind::ConnectionAborted, SimIoError),
            ErrKind::Unsupported => io::Error::new(io::ErrorKind::Unsupported, SimIoError),
            ErrKind::OutOfMemory => io::Error::new(io::ErrorKind::OutOfMemory, SimIoError),
            ErrKind::RawEbadf => io::Error::from_raw_os_error(libc::EBADF),
        }
    }
    /// injected as a bare OS error code (no payload object to follow)
    pub fn is_raw(self) -> bool {
        matches!(self, ErrKind::RawEio | ErrKind::RawEnospc | ErrKind::RawEbadf)
    }
    /// Does `e` look like the error this kind injects?
    pub fn matches(self, e: &io::Error) -> bool {
        match self {
            ErrKind::RawEio => e.raw_os_error() == Some(libc::EIO),
            ErrKind::RawEnospc => e.raw_os_error() == Some(libc::ENOSPC),
            ErrKind::RawEbadf => e.raw_os_error() == Some(libc::EBADF),
            _ => e.kind() == self.make().kind(),
        }
    }
}

/// Is the error the simulated reader reported still carried by `e`: `e` itself, its payload, or
/// something further down the `source()` chain (a loader may wrap the error with context)?
/// For payload kinds that is the very `SimIoError` object; for raw OS errors (which have no
/// payload) an `io::Error` with the same OS code.
pub fn carried(kind: ErrKind, e: &io::Error) -> bool {
    fn io_node(kind: ErrKind, io: &io::Error) -> bool {
        if kind.is_raw() {
            kind.matches(io)
        } else {
            io.get_ref().map(|p| p.is::<SimIoError>()).unwrap_or(false)
        }
    }
    if io_node(kind, e) {
        return true;
    }
    let mut cur: Option<&(dyn std::error::Error + 'static)> = e.get_ref().map(|p| p as &(dyn std::error::Error + 'static));
    let mut depth = 0;
    while let Some(c) = cur {
        if !kind.is_raw() && c.is::<SimIoError>() {
            return true;
        }
        if let Some(io) = c.downcast_ref::<io::Error>() {
            if io_node(kind, io) {
                return true;
            }
            // an io::Error's own source() skips its payload object: look at the payload as well
            if let Some(p) = io.get_ref() {
                if let Some(io2) = p.downcast_ref::<io::Error>() {
                    if io_node(kind, io2) {
                        return true;
                    }
                }
            }
        }
        depth += 1;
        if depth > 16 {
            break;
        }
        cur = c.source();
    }
    false
}

/// Marker payload so the oracle can tell whether the very error object survived.
#[derive(Debug)]
pub struct SimIoError;
impl std::fmt::Display for SimIoError {
    fn fmt(&self, f: &mut std::fmt::Formatter<'_>) -> std::fmt::Result {
        write!(f, "simulated I/O failure")
    }
}
impl std::error::Error for SimIoError {}

#[derive(Clone, Debug, Default)]
pub struct ReaderPlan {
    /// cyclic list of maximum sizes of successive successful reads; empty = fill every request
    pub sizes: Vec<u32>,
    /// (stream offset, times): the first read starting at an offset >= `offset` first returns
    /// `Interrupted` `times` times. Sorted by offset.
    pub eintr: Vec<(u64, u32)>,
    /// hard error: reads starting below `at` deliver at most up to `at`; the read at `at` fails.
    pub error: Option<(u64, ErrKind, bool)>, // (at, kind, sticky)
    /// the reader implements `read_vectored` natively: one call fills several buffers and a short
    /// read may stop anywhere inside any of them (pipes, sockets, `BufReader` at the end of its
    /// buffer). Off: std's default, which only ever fills the first non-empty buffer.
    pub vectored: bool,
}

impl ReaderPlan {
    pub fn is_faulty(&self) -> bool {
        !self.sizes.is_empty() || !self.eintr.is_empty() || self.error.is_some()
    }
}

#[derive(Clone, Debug, Default)]
pub struct ReadStats {
    pub calls: u64,
    pub delivered: u64,
    pub short: u64,
    pub eintr: u64,
    pub errors: u64,
    pub zero_eof: u64,
    pub max_request: u64,
    pub split_primitive: u64, // a 2/4-byte request that got fewer bytes
    pub trace: u64,           // digest of the (requested, result) sequence
    /// C12 strict reading: max over calls of (peak live so far) - bound(delivered so far)
    pub mem_excess: i64,
    pub mem_excess_at: u64,
    pub error_fired_at_call: u64,
    pub vectored_calls: u64,
}

pub struct SimReader<'a> {
    data: &'a [u8],
    pos: usize,
    plan: &'a ReaderPlan,
    size_idx: usize,
    eintr_idx: usize,
    eintr_left: u32,
    error_done: bool,
    pub stats: ReadStats,
    digest: Digest,
    track_mem: bool,
    pub log: Option<Vec<(u32, i64)>>, // (requested, result: >=0 bytes, -1 eintr, -2 error)
    call_cap: u64,
}

pub const MEM_BASE: i64 = 64 << 20;
pub const MEM_PER_BYTE: i64 = 8192;

impl<'a> SimReader<'a> {
    pub fn new(data: &'a [u8], plan: &'a ReaderPlan) -> SimReader<'a> {
        SimReader {
            data,
            pos: 0,
            plan,
            size_idx: 0,
            eintr_idx: 0,
            eintr_left: 0,
            error_done: false,
            stats: ReadStats {
                mem_excess: i64::MIN,
                ..Default::default()
            },
            digest: Digest::new(),
            track_mem: false,
            log: None,
            call_cap: 4 * data.len() as u64 + 1024 + 4 * plan.eintr.len() as u64 + plan.eintr.iter().map(|e| e.1 as u64).sum::<u64>(),
        }
    }
    pub fn track_mem(mut self) -> Self {
        self.track_mem = true;
        self
    }
    pub fn with_log(mut self) -> Self {
        self.log = Some(Vec::new());
        self
    }
    pub fn finish(mut self) -> ReadStats {
        self.stats.trace = self.digest.finish();
        self.stats
    }
    pub fn stats_now(&self) -> ReadStats {
        let mut s = self.stats.clone();
        s.trace = self.digest.finish();
        s
    }
    pub fn consumed(&self) -> usize {
        self.pos
    }
    fn record(&mut self, req: usize, res: i64) {
        self.digest.u64(req as u64);
        self.digest.i64(res);
        if let Some(l) = &mut self.log {
            let _p = crate::alloc::pause();
            if l.len() < 100_000 {
                l.push((req as u32, res));
            }
        }
    }
}

impl<'a> SimReader<'a> {
    /// Decide the outcome of one call asking for `req` bytes: `Ok((from, n))` = deliver
    /// `data[from..from + n]`. Advances the stream.
    fn step(&mut self, req: usize) -> io::Result<(usize, usize)> {
        self.stats.calls += 1;
        if self.stats.calls > self.call_cap {
            // no-progress loop guard: reported by the oracle as a hang
            return Err(io::Error::new(io::ErrorKind::Other, "SIM-CALL-CAP"));
        }
        if self.track_mem {
            let peak = crate::alloc::current_peak() as i64;
            let bound = MEM_BASE + MEM_PER_BYTE.saturating_mul(self.stats.delivered as i64);
            let ex = peak - bound;
            if ex > self.stats.mem_excess {
                self.stats.mem_excess = ex;
                self.stats.mem_excess_at = self.stats.delivered;
            }
        }
        self.stats.max_request = self.stats.max_request.max(req as u64);
        if req == 0 {
            self.record(0, 0);
            return Ok((self.pos, 0));
        }
        // transient interruptions
        while self.eintr_idx < self.plan.eintr.len()
            && self.eintr_left == 0
            && self.plan.eintr[self.eintr_idx].0 <= self.pos as u64
        {
            self.eintr_left = self.plan.eintr[self.eintr_idx].1;
            self.eintr_idx += 1;
        }
        if self.eintr_left > 0 {
            self.eintr_left -= 1;
            self.stats.eintr += 1;
            self.record(req, -1);
            return Err(io::Error::new(io::ErrorKind::Interrupted, SimIoError));
        }
        // hard error
        let mut limit = self.data.len();
        if let Some((at, kind, sticky)) = self.plan.error {
            let at = at as usize;
            if self.pos >= at && (!self.error_done || sticky) {
                self.error_done = true;
                self.stats.errors += 1;
                if self.stats.error_fired_at_call == 0 {
                    self.stats.error_fired_at_call = self.stats.calls;
                }
                self.record(req, -2);
                return Err(kind.make());
            }
            if self.pos < at {
                limit = limit.min(at);
            }
        }
        let avail = limit.saturating_sub(self.pos);
        if avail == 0 {
            self.stats.zero_eof += 1;
            self.record(req, 0);
            return Ok((self.pos, 0));
        }
        let mut n = req.min(avail);
        if !self.plan.sizes.is_empty() {
            let s = self.plan.sizes[self.size_idx % self.plan.sizes.len()].max(1) as usize;
            self.size_idx += 1;
            n = n.min(s);
        }
        if n < req {
            self.stats.short += 1;
            if req == 2 || req == 4 {
                self.stats.split_primitive += 1;
            }
        }
        let from = self.pos;
        self.pos += n;
        self.stats.delivered += n as u64;
        self.record(req, n as i64);
        Ok((from, n))
    }
}

impl<'a> Read for SimReader<'a> {
    fn read(&mut self, buf: &mut [u8]) -> io::Result<usize> {
        let (from, n) = self.step(buf.len())?;
        buf[..n].copy_from_slice(&self.data[from..from + n]);
        Ok(n)
    }
    fn read_vectored(&mut self, bufs: &mut [io::IoSliceMut<'_>]) -> io::Result<usize> {
        if !self.plan.vectored {
            // std's default
            let buf = bufs.iter_mut().find(|b| !b.is_empty()).map_or(&mut [][..], |b| &mut **b);
            return self.read(buf);
        }
        self.stats.vectored_calls += 1;
        let req: usize = bufs.iter().map(|b| b.len()).sum();
        let (mut from, n) = self.step(req)?;
        let mut left = n;
        for b in bufs.iter_mut() {
            if left == 0 {
                break;
            }
            let k = left.min(b.len());
            b[..k].copy_from_slice(&self.data[from..from + k]);
            from += k;
            left -= k;
        }
        Ok(n)
    }
}

/// Draw a reader schedule. `n` = number of bytes the reference load consumed; `hard` asks for
/// a hard error strictly before `n`; boundaries bias fault placement into in-flight state.
pub fn gen_reader_plan(r: &mut Rng, n: u64, boundaries: &[usize], hard: bool) -> ReaderPlan {
    let mut p = ReaderPlan::default();
    // short-read policy
    match r.below(8) {
        0 => {}                     // full reads
        1 => p.sizes = vec![1],     // one byte at a time
        2 => {
            let k = 1 + r.usize_below(12);
            p.sizes = (0..k).map(|_| 1 + r.below(7) as u32).collect();
        }
        3 => p.sizes = vec![*r.pick(&[2u32, 3, 5, 16, 64, 512, 4096])], // sector-ish
        4 => {
            let k = 1 + r.usize_below(20);
            p.sizes = (0..k)
                .map(|_| match r.below(4) {
                    0 => 1,
                    1 => 1 + r.below(4) as u32,
                    2 => 1 + r.below(100) as u32,
                    _ => 1 << r.below(14),
                })
                .collect();
        }
        5 => p.sizes = vec![1, 1, 1, 100_000],
        6 => p.sizes = vec![3, 100_000, 1],
        _ => {
            let k = 1 + r.usize_below(6);
            p.sizes = (0..k).map(|_| 1 + r.below(n.max(1)) as u32).collect();
        }
    }
    let place = |r: &mut Rng| -> u64 {
        if n == 0 {
            return 0;
        }
        match r.below(6) {
            0 if !boundaries.is_empty() => {
                // inside a primitive right after a boundary (between the bytes of a WORD/DWORD)
                let b = *r.pick(boundaries) as u64;
                (b + 1 + r.below(3)).min(n - 1)
            }
            1 if !boundaries.is_empty() => (*r.pick(boundaries) as u64).min(n - 1),
            2 if !boundaries.is_empty() => {
                let b = *r.pick(boundaries) as u64;
                b.saturating_sub(1).min(n - 1)
            }
            3 => *r.pick(&[0, 1, 3, 4, 5, 127, 128, 129, n - 1]).min(&(n - 1)),
            _ => r.below(n),
        }
    };
    if r.chance(1, 2) {
        let k = 1 + r.usize_below(4);
        // mostly 1..3 in a row, occasionally a long burst, rarely a storm of hundreds or thousands
        // (a signal-heavy host; a retry loop with a bound gives up there)
        let mut v: Vec<(u64, u32)> = (0..k)
            .map(|_| {
                (
                    place(r),
                    match r.below(40) {
                        0..=3 => 4 + r.below(20) as u32,
                        4 => 100 + r.below(400) as u32,
                        5 => 1000 + r.below(9000) as u32,
                        _ => 1 + r.below(3) as u32,
                    },
                )
            })
            .collect();
        v.sort();
        v.dedup_by_key(|e| e.0);
        p.eintr = v;
    }
    if hard && n > 0 {
        let at = place(r).min(n - 1);
        p.error = Some((at, *r.pick(ERR_KINDS), r.chance(1, 2)));
    }
    p.vectored = r.chance(1, 3);
    p
}
