//! Supervisor: runs W worker processes per build profile, attributes worker deaths (stack
//! overflow, abort, allocation refusal by the simulated machine) and watchdog expiries to the run
//! in flight, shrinks and writes replay files, matches known findings, writes evidence.

use crate::plan::{Plan, Violation};
use crate::props::{self, Ctx, Tier};
use serde_json::{json, Value};
use std::collections::{BTreeMap, BTreeSet, HashSet};
use std::io::{BufRead, BufReader};
use std::process::{Child, Command, Stdio};
use std::sync::mpsc;
use std::time::{Duration, Instant};

pub struct RunArgs {
    pub prop: String,
    pub tier: Tier,
    pub seed: u64,
    pub exes: Vec<(String, String)>, // (profile name, path)
    pub workers: usize,
    pub verif_dir: String,
    pub dump: Option<String>,
    pub no_evidence: bool,
    pub shrink_budget_s: u64,
    pub known_path: Option<String>,
}

enum Msg {
    Line(usize, String),
    Eof(usize),
}

struct WState {
    child: Child,
    last_b: Option<(u64, u64)>,
    load_done: bool,
    last_progress: Instant,
    done: bool,
    stderr_tail: std::sync::Arc<std::sync::Mutex<Vec<String>>>,
    alive: bool,
}

#[derive(Default)]
pub struct Total {
    pub evals: u64,
    pub counters: BTreeMap<String, u64>,
    pub max: BTreeMap<String, u64>,
    pub distinct: HashSet<u64>,
    pub samples: Vec<Value>,
    pub batch_digest: u64,
}

#[derive(Clone)]
pub struct Found {
    pub profile: String,
    pub job: u64,
    pub sub: u64,
    pub violation: Violation,
    pub replay: String,
}

fn spawn_worker(exe: &str, profile: &str, a: &RunArgs, k: usize, w: usize, resume: Option<(u64, u64)>, replay_dir: &str) -> (Child, std::sync::Arc<std::sync::Mutex<Vec<String>>>) {
    let mut c = Command::new(exe);
    c.arg("worker")
        .arg(&a.prop)
        .arg(a.tier.name())
        .arg(a.seed.to_string())
        .arg(k.to_string())
        .arg(w.to_string())
        .arg(replay_dir);
    if let Some((j, s)) = resume {
        c.arg("--resume").arg(j.to_string()).arg(s.to_string());
    }
    if let Some(d) = &a.dump {
        c.arg("--dump").arg(d);
    }
    if let Ok(j) = std::env::var("VERIF_ONLY_JOB") {
        c.arg("--only-job").arg(j);
    }
    c.env("ASESIM_PROFILE", profile);
    // every other worker runs with the host's log level at Trace (results must not depend on it)
    if k % 2 == 1 {
        c.env("ASESIM_LOG", "trace");
    } else {
        c.env_remove("ASESIM_LOG");
    }
    c.stdin(Stdio::null()).stdout(Stdio::piped()).stderr(Stdio::piped());
    let mut child = c.spawn().expect("cannot spawn worker");
    let tail = std::sync::Arc::new(std::sync::Mutex::new(Vec::new()));
    let t2 = tail.clone();
    let stderr = child.stderr.take().unwrap();
    std::thread::spawn(move || {
        let r = BufReader::new(stderr);
        for l in r.lines().map_while(Result::ok) {
            let mut g = t2.lock().unwrap();
            g.push(l);
            if g.len() > 12 {
                g.remove(0);
            }
        }
    });
    (child, tail)
}

fn violation_from_json(v: &Value) -> Violation {
    let s = |k: &str| v.get(k).and_then(|x| x.as_str()).unwrap_or("").to_string();
    Violation {
        property: s("property"),
        kind: s("kind"),
        stage: s("stage"),
        site: s("site"),
        msg: s("msg"),
        detail: s("detail"),
    }
}

/// Classify a dead worker from its wait status and the tail of its stderr.
pub fn classify_death(status: &std::process::ExitStatus, tail: &[String]) -> (String, String, String) {
    use std::os::unix::process::ExitStatusExt;
    let joined = tail.join("\n");
    let sig = status.signal();
    if joined.contains("has overflowed its stack") {
        return ("stack-overflow".into(), "2 MiB thread stack exhausted".into(), joined);
    }
    if let Some(l) = tail.iter().rev().find(|l| l.starts_with("ALLOC-REFUSED")) {
        return (
            "abort".into(),
            "allocation refused by the simulated machine (process abort)".into(),
            format!("{} ; {}", l, joined),
        );
    }
    if tail.iter().any(|l| l.starts_with("WATCHDOG:")) {
        return ("hang".into(), "run did not finish within the watchdog".into(), joined);
    }
    if joined.contains("memory allocation of") {
        return ("abort".into(), "memory allocation failed (process abort)".into(), joined);
    }
    match sig {
        Some(libc::SIGSEGV) => ("stack-overflow".into(), "SIGSEGV".into(), joined),
        Some(libc::SIGABRT) => ("abort".into(), "SIGABRT".into(), joined),
        Some(libc::SIGKILL) => ("abort".into(), "SIGKILL (host out of memory?)".into(), joined),
        Some(s) => ("abort".into(), format!("signal N ({})", s), joined),
        None => ("abort".into(), format!("worker exited with code {:?}", status.code()), joined),
    }
}

pub struct ProfileResult {
    pub total: Total,
    pub found: Vec<Found>,
    pub wall_s: f64,
    pub harness_errors: Vec<String>,
}

pub fn run_profile(a: &RunArgs, profile: &str, exe: &str, replay_dir: &str) -> ProfileResult {
    let t0 = Instant::now();
    // workers inherit it; the supervisor needs the same view of the job layout
    std::env::set_var("ASESIM_PROFILE", profile);
    let ctx = Ctx::new(a.seed, a.tier);
    let njobs = props::num_jobs(&ctx, &a.prop);
    let w = a.workers.max(1).min(njobs.max(1) as usize);
    let watchdog = Duration::from_secs(if a.tier == Tier::Quick { 90 } else { 240 });
    let (tx, rx) = mpsc::channel::<Msg>();
    let mut ws: Vec<WState> = Vec::new();
    let start_reader = |child: &mut Child, k: usize, tx: mpsc::Sender<Msg>| {
        let out = child.stdout.take().unwrap();
        std::thread::spawn(move || {
            let r = BufReader::with_capacity(1 << 16, out);
            for l in r.lines().map_while(Result::ok) {
                if tx.send(Msg::Line(k, l)).is_err() {
                    return;
                }
            }
            let _ = tx.send(Msg::Eof(k));
        });
    };
    for k in 0..w {
        let (mut child, tail) = spawn_worker(exe, profile, a, k, w, None, replay_dir);
        start_reader(&mut child, k, tx.clone());
        ws.push(WState {
            child,
            last_b: None,
            load_done: false,
            last_progress: Instant::now(),
            done: false,
            stderr_tail: tail,
            alive: true,
        });
    }
    let mut total = Total::default();
    let mut found: Vec<Found> = Vec::new();
    let mut harness_errors = Vec::new();
    let mut deaths = 0u64;
    let mut death_classes: BTreeMap<String, u64> = BTreeMap::new();
    let mut truncated = false;
    let mut active = w;
    // A change that breaks the property systematically produces thousands of identical violations
    // (and, for allocation bugs, runs that take seconds each): once this many have been collected
    // the remaining runs add nothing and the batch is cut short.
    let max_viol: usize = std::env::var("VERIF_MAX_VIOLATIONS").ok().and_then(|s| s.parse().ok()).unwrap_or(300);
    let max_hangs: u64 = std::env::var("VERIF_MAX_HANGS").ok().and_then(|s| s.parse().ok()).unwrap_or(16);
    let mut hangs = 0u64;
    while active > 0 {
        // watchdog expiries cost the whole watchdog each: a change that makes loading hang is
        // decided by the first few of them
        if hangs >= max_hangs && !truncated {
            eprintln!("NOTE: {} runs hit the watchdog; remaining runs of this profile are not explored", hangs);
            truncated = true;
            for st in ws.iter_mut() {
                if st.alive {
                    st.done = true;
                    let _ = st.child.kill();
                }
            }
        }
        if found.len() + (deaths as usize) >= max_viol && !truncated {
            eprintln!("NOTE: {} violations collected; remaining runs of this profile are not explored", found.len() + deaths as usize);
            truncated = true;
            for st in ws.iter_mut() {
                if st.alive {
                    st.done = true; // its EOF is then an orderly end
                    let _ = st.child.kill();
                }
            }
        }
        match rx.recv_timeout(Duration::from_millis(500)) {
            Ok(Msg::Line(k, l)) => {
                let st = &mut ws[k];
                st.last_progress = Instant::now();
                let (tag, rest) = l.split_at(l.len().min(1));
                let rest = rest.trim_start();
                match tag {
                    "B" => {
                        let mut it = rest.split(' ');
                        let j = it.next().and_then(|x| x.parse().ok()).unwrap_or(0);
                        let s = it.next().and_then(|x| x.parse().ok()).unwrap_or(0);
                        st.last_b = Some((j, s));
                        st.load_done = false;
                    }
                    "L" => st.load_done = true,
                    "D" => st.done = true,
                    "S" => {
                        if let Ok(v) = serde_json::from_str::<Value>(rest) {
                            merge(&mut total, &v);
                        }
                    }
                    "V" => {
                        if let Ok(v) = serde_json::from_str::<Value>(rest) {
                            found.push(Found {
                                profile: profile.into(),
                                job: v["job"].as_u64().unwrap_or(0),
                                sub: v["sub"].as_u64().unwrap_or(0),
                                violation: violation_from_json(&v["violation"]),
                                replay: v["replay"].as_str().unwrap_or("").to_string(),
                            });
                        }
                    }
                    _ => {}
                }
            }
            Ok(Msg::Eof(k)) => {
                let status = ws[k].child.wait().expect("wait");
                remove_worker_tmp(ws[k].child.id());
                ws[k].alive = false;
                if ws[k].done && (status.success() || truncated) {
                    active -= 1;
                    continue;
                }
                // died: attribute to the run in flight
                deaths += 1;
                std::thread::sleep(Duration::from_millis(30)); // let the stderr thread drain
                let tail = ws[k].stderr_tail.lock().unwrap().clone();
                let Some((j, s)) = ws[k].last_b else {
                    harness_errors.push(format!("worker {} died before its first run: {:?} {:?}", k, status, tail));
                    active -= 1;
                    continue;
                };
                let (kind, msg, detail) = classify_death(&status, &tail);
                let in_use = ws[k].load_done;
                // C05 quantifies over files that load; C14 over files whose fault-free reference
                // load returns: a death before the L mark is outside the property.
                let counts = !(a.prop == "C05" || a.prop == "C14") || in_use;
                if kind == "abort" && detail.contains("harness") {
                    harness_errors.push(format!("worker {}: {}", k, detail));
                }
                if counts && kind == "hang" {
                    hangs += 1;
                }
                let class_key = format!("{}|{}", kind, msg);
                let seen_of_class = {
                    let e = death_classes.entry(class_key).or_insert(0u64);
                    *e += 1;
                    *e
                };
                if counts && seen_of_class > 12 {
                    // same kind of death again: counted, not turned into yet another replay file
                    *total.counters.entry("violations:further-deaths-of-a-known-class".into()).or_insert(0) += 1;
                } else if counts {
                    let job = props::make_job(&ctx, &a.prop, j);
                    let mut plan = job.plan(&ctx, s);
                    plan.log_trace = k % 2 == 1;
                    let v = Violation {
                        property: a.prop.clone(),
                        kind: kind.clone(),
                        stage: if in_use { "use".into() } else { "load".into() },
                        site: String::new(),
                        msg: crate::plan::normalise(&msg),
                        detail,
                    };
                    let path = format!("{}/{}-s{}-j{}-r{}.json", replay_dir, a.prop, a.seed, j, s);
                    let mut pj = plan.to_json();
                    pj["expected"] = v.to_json();
                    let _ = std::fs::create_dir_all(replay_dir);
                    let _ = std::fs::write(&path, serde_json::to_string_pretty(&pj).unwrap());
                    found.push(Found {
                        profile: profile.into(),
                        job: j,
                        sub: s,
                        violation: v,
                        replay: path,
                    });
                } else {
                    *total.counters.entry("probe:load-died-(outside-this-property's-quantifier)".into()).or_insert(0) += 1;
                }
                if deaths > 1000 {
                    if !truncated {
                        eprintln!("NOTE: more than 1000 worker deaths; remaining runs of dying workers are not explored");
                        truncated = true;
                    }
                    active -= 1;
                    continue;
                }
                // restart at the next run
                let (mut child, tail) = spawn_worker(exe, profile, a, k, w, Some((j, s + 1)), replay_dir);
                start_reader(&mut child, k, tx.clone());
                ws[k].child = child;
                ws[k].stderr_tail = tail;
                ws[k].alive = true;
                ws[k].last_progress = Instant::now();
                ws[k].load_done = false;
            }
            Err(mpsc::RecvTimeoutError::Timeout) => {
                for st in ws.iter_mut() {
                    if st.alive && !st.done && st.last_progress.elapsed() > watchdog {
                        // hang: kill; the Eof handler attributes and restarts
                        let mut g = st.stderr_tail.lock().unwrap();
                        g.push("WATCHDOG: run did not finish".into());
                        drop(g);
                        let _ = st.child.kill();
                        st.last_progress = Instant::now();
                    }
                }
            }
            Err(mpsc::RecvTimeoutError::Disconnected) => break,
        }
    }
    ProfileResult {
        total,
        found,
        wall_s: t0.elapsed().as_secs_f64(),
        harness_errors,
    }
}

fn merge(t: &mut Total, v: &Value) {
    t.evals += v["evals"].as_u64().unwrap_or(0);
    if let Some(c) = v["counters"].as_object() {
        for (k, n) in c {
            *t.counters.entry(k.clone()).or_insert(0) += n.as_u64().unwrap_or(0);
        }
    }
    if let Some(c) = v["max"].as_object() {
        for (k, n) in c {
            let e = t.max.entry(k.clone()).or_insert(0);
            *e = (*e).max(n.as_u64().unwrap_or(0));
        }
    }
    if let Some(d) = v["distinct"].as_array() {
        for x in d {
            if let Some(h) = x.as_str().and_then(|s| u64::from_str_radix(s, 16).ok()) {
                t.distinct.insert(h);
            }
        }
    }
    if let Some(s) = v["samples"].as_array() {
        for x in s {
            if t.samples.len() < 8 {
                t.samples.push(x.clone());
            }
        }
    }
    if let Some(h) = v["batch_digest"].as_str().and_then(|s| u64::from_str_radix(s, 16).ok()) {
        t.batch_digest = t.batch_digest.wrapping_add(h);
    }
}

pub struct Known {
    pub findings: Vec<(String, String, String)>, // (property, signature, what)
}

pub fn load_known(path: &str) -> Known {
    let mut k = Known { findings: Vec::new() };
    if let Ok(s) = std::fs::read_to_string(path) {
        if let Ok(v) = serde_json::from_str::<Value>(&s) {
            if let Some(a) = v["findings"].as_array() {
                for f in a {
                    k.findings.push((
                        f["property"].as_str().unwrap_or("").to_string(),
                        f["signature"].as_str().unwrap_or("").to_string(),
                        f["what"].as_str().unwrap_or("").to_string(),
                    ));
                }
            }
        }
    }
    k
}

/// Execute a plan in a fresh child process (it may abort) and return the violation observed.
pub fn exec_plan_in_child(exe: &str, plan: &Plan, timeout: Duration) -> Result<Option<Violation>, String> {
    let dir = std::env::temp_dir().join(format!("asesim-sup-{}", std::process::id()));
    let _ = std::fs::create_dir_all(&dir);
    static N: std::sync::atomic::AtomicU64 = std::sync::atomic::AtomicU64::new(0);
    let path = dir.join(format!("plan-{}.json", N.fetch_add(1, std::sync::atomic::Ordering::Relaxed)));
    std::fs::write(&path, serde_json::to_string(&plan.to_json()).unwrap()).map_err(|e| e.to_string())?;
    let r = exec_file_in_child(exe, path.to_str().unwrap(), timeout);
    let _ = std::fs::remove_file(&path);
    r
}

pub fn exec_file_in_child(exe: &str, path: &str, timeout: Duration) -> Result<Option<Violation>, String> {
    // the plan names the configuration it ran under
    let trace = std::fs::read_to_string(path)
        .ok()
        .and_then(|s| serde_json::from_str::<Value>(&s).ok())
        .and_then(|v| v.get("log_trace").and_then(|x| x.as_bool()))
        .unwrap_or(false);
    let mut cmd = Command::new(exe);
    if trace {
        cmd.env("ASESIM_LOG", "trace");
    } else {
        cmd.env_remove("ASESIM_LOG");
    }
    let mut child = cmd
        .arg("exec")
        .arg(path)
        .stdin(Stdio::null())
        .stdout(Stdio::piped())
        .stderr(Stdio::piped())
        .spawn()
        .map_err(|e| e.to_string())?;
    let t0 = Instant::now();
    let mut out = child.stdout.take().unwrap();
    let mut err = child.stderr.take().unwrap();
    let ho = std::thread::spawn(move || {
        let mut s = String::new();
        let _ = std::io::Read::read_to_string(&mut out, &mut s);
        s
    });
    let he = std::thread::spawn(move || {
        let mut s = Vec::new();
        let _ = std::io::Read::read_to_end(&mut err, &mut s);
        String::from_utf8_lossy(&s).to_string()
    });
    let status = loop {
        match child.try_wait().map_err(|e| e.to_string())? {
            Some(s) => break Some(s),
            None => {
                if t0.elapsed() > timeout {
                    let _ = child.kill();
                    let _ = child.wait();
                    break None;
                }
                std::thread::sleep(Duration::from_millis(2));
            }
        }
    };
    let stdout = ho.join().unwrap_or_default();
    let stderr = he.join().unwrap_or_default();
    remove_worker_tmp(child.id());
    let plan_prop = || -> String {
        std::fs::read_to_string(path)
            .ok()
            .and_then(|s| serde_json::from_str::<Value>(&s).ok())
            .and_then(|v| v["property"].as_str().map(|s| s.to_string()))
            .unwrap_or_default()
    };
    let Some(status) = status else {
        return Ok(Some(Violation {
            property: plan_prop(),
            kind: "hang".into(),
            stage: "run".into(),
            site: String::new(),
            msg: "run did not finish within the watchdog".into(),
            detail: String::new(),
        }));
    };
    if status.success() || status.code() == Some(1) {
        // the child printed RESULT <json>
        for l in stdout.lines() {
            if let Some(r) = l.strip_prefix("RESULT ") {
                let v: Value = serde_json::from_str(r).map_err(|e| e.to_string())?;
                if v["violation"].is_null() {
                    return Ok(None);
                }
                return Ok(Some(violation_from_json(&v["violation"])));
            }
        }
        return Err(format!("child produced no RESULT line: {}", stderr));
    }
    if status.code() == Some(2) {
        return Err(format!("harness error in child: {}", stderr));
    }
    let tail: Vec<String> = stderr.lines().rev().take(12).map(|s| s.to_string()).collect::<Vec<_>>().into_iter().rev().collect();
    let (kind, msg, detail) = classify_death(&status, &tail);
    // stage: last "STAGE <name>" line the child wrote
    let stage_line = stderr
        .lines()
        .rev()
        .find_map(|l| l.strip_prefix("STAGE ").map(|s| s.to_string()))
        .unwrap_or_else(|| "load".into());
    // "op:<json>" -> stage is the op name; the op itself goes into the detail
    let (stage, detail) = match stage_line.strip_prefix("op:") {
        Some(opj) => {
            let name = serde_json::from_str::<Value>(opj)
                .ok()
                .and_then(|v| v["op"].as_str().map(|s| s.to_string()))
                .unwrap_or_else(|| "use".into());
            (name, format!("op={} ;; {}", opj, detail))
        }
        None => (stage_line, detail),
    };
    Ok(Some(Violation {
        property: plan_prop(),
        kind,
        stage,
        site: String::new(),
        msg: crate::plan::normalise(&msg),
        detail,
    }))
}

/// A worker that was killed (watchdog, violation budget) or died cannot remove its own scratch
/// directory of temp files; its supervisor does.
pub fn remove_worker_tmp(pid: u32) {
    let dir = std::env::temp_dir().join(format!("asesim-{}", pid));
    let _ = std::fs::remove_dir_all(dir);
}

pub fn cleanup_child_tmp() {
    let dir = std::env::temp_dir().join(format!("asesim-sup-{}", std::process::id()));
    let _ = std::fs::remove_dir_all(dir);
}

pub struct Outcome {
    pub exit: i32,
}

pub fn run(a: &RunArgs) -> Outcome {
    let t0 = Instant::now();
    let replay_dir = format!("{}/replays", a.verif_dir);
    let tmp_replay = format!("{}/replays/tmp-{}-{}", a.verif_dir, a.prop, std::process::id());
    let known = load_known(&a.known_path.clone().unwrap_or_else(|| format!("{}/known_findings.json", a.verif_dir)));
    let mut results: Vec<(String, ProfileResult)> = Vec::new();
    for (profile, exe) in &a.exes {
        eprintln!("[{}] profile {}: starting ({} workers)", a.prop, profile, a.workers);
        let r = run_profile(a, profile, exe, &tmp_replay);
        eprintln!(
            "[{}] profile {}: {} evaluations, {} raw violations, {:.1}s",
            a.prop,
            profile,
            r.total.evals,
            r.found.len(),
            r.wall_s
        );
        results.push((profile.clone(), r));
    }
    // ---- distinct signatures, first occurrence in (profile order, job, sub) order
    let mut by_sig: BTreeMap<String, Found> = BTreeMap::new();
    let mut sig_counts: BTreeMap<String, u64> = BTreeMap::new();
    for (_, r) in &results {
        let mut f = r.found.clone();
        f.sort_by_key(|x| (x.job, x.sub));
        for x in f {
            let sig = x.violation.signature();
            *sig_counts.entry(sig.clone()).or_insert(0) += 1;
            by_sig.entry(sig).or_insert(x);
        }
    }
    let mut harness_errors: Vec<String> = results.iter().flat_map(|(_, r)| r.harness_errors.clone()).collect();
    let mut new_violations: Vec<(Found, String)> = Vec::new();
    let mut known_hit: BTreeSet<String> = BTreeSet::new();
    let shrink_deadline = Instant::now() + Duration::from_secs(a.shrink_budget_s);
    let mut reported = 0;
    for (sig, f) in &by_sig {
        if f.violation.kind == "harness" {
            harness_errors.push(format!("{} ({})", f.violation.msg, f.replay));
            continue;
        }
        // abort-type violations carry no stage/site yet: refine by re-executing in a child
        let exe = a.exes.iter().find(|(p, _)| *p == f.profile).map(|(_, e)| e.clone()).unwrap_or_default();
        let mut f = f.clone();
        let mut sig = sig.clone();
        if matches!(f.violation.kind.as_str(), "abort" | "stack-overflow" | "hang") {
            let was_watchdog = f.violation.kind == "hang";
            match exec_file_in_child(&exe, &f.replay, Duration::from_secs(120)) {
                Ok(Some(v)) => {
                    f.violation = v;
                    sig = f.violation.signature();
                }
                Ok(None) if was_watchdog => {
                    // The watchdog is the one wall-clock element of the machinery. The run it
                    // blamed finishes, without any violation, when executed again in a fresh
                    // process: the worker was starved by the host (seen once, with four 16-worker
                    // batches sharing 16 cores), not stuck in the library. Not a violation.
                    let again = exec_file_in_child(&exe, &f.replay, Duration::from_secs(120));
                    if matches!(again, Ok(None)) {
                        println!(
                            "NOTE: watchdog expiry of job {} run {} ({}) did not reproduce in two fresh executions of that run (host overloaded?); not reported",
                            f.job, f.sub, f.profile
                        );
                        let _ = std::fs::remove_file(&f.replay);
                        continue;
                    }
                    if let Ok(Some(v)) = again {
                        f.violation = v;
                        sig = f.violation.signature();
                    }
                }
                _ => {}
            }
        }
        if let Some((_, _, what)) = known.findings.iter().find(|(p, s, _)| *p == a.prop && *s == sig) {
            if known_hit.insert(sig.clone()) {
                println!("KNOWN-FINDING: property={} {} [{}]", a.prop, what, sig);
            }
            let _ = std::fs::remove_file(&f.replay);
            continue;
        }
        if new_violations.iter().any(|(g, _)| g.violation.signature() == sig) {
            continue;
        }
        reported += 1;
        if reported > 40 {
            continue;
        }
        // shrink, write the final replay file
        let final_path = format!("{}/{}-s{}-j{}-r{}-{}.json", replay_dir, a.prop, a.seed, f.job, f.sub, f.profile);
        let mut shrunk = crate::shrink::shrink_file(&exe, &f.replay, &f.violation, &f.profile, shrink_deadline);
        // Not reproducible in a fresh process although the worker saw it (even on a fresh thread)?
        // Then process-wide state left by earlier runs of the same job is part of the story:
        // rebuild the history from the job's earlier runs and let the shrinker cut it down.
        let needs_history = match &shrunk {
            Ok(j) => j["shrink"]["reproduced_before_shrinking"] == serde_json::Value::Bool(false) && j["history_before"].as_array().map(|a| a.is_empty()).unwrap_or(true),
            Err(_) => false,
        };
        if needs_history && f.sub > 0 {
            std::env::set_var("ASESIM_PROFILE", &f.profile);
            let ctx = Ctx::new(a.seed, a.tier);
            let job = props::make_job(&ctx, &a.prop, f.job);
            let from = f.sub.saturating_sub(256);
            if let Ok(text) = std::fs::read_to_string(&f.replay) {
                if let Ok(mut pj) = serde_json::from_str::<Value>(&text) {
                    let hist: Vec<Value> = (from..f.sub.min(job.len())).map(|s| job.plan(&ctx, s).to_json()).collect();
                    pj["history_before"] = Value::Array(hist);
                    let _ = std::fs::write(&f.replay, serde_json::to_string(&pj).unwrap());
                    let deadline2 = Instant::now() + Duration::from_secs(a.shrink_budget_s.max(60));
                    let again = crate::shrink::shrink_file(&exe, &f.replay, &f.violation, &f.profile, deadline2);
                    if let Ok(j) = &again {
                        if j["shrink"]["reproduced_before_shrinking"] == serde_json::Value::Bool(true) {
                            shrunk = again;
                        }
                    }
                }
            }
        }
        match shrunk {
            Ok(j) => {
                let _ = std::fs::write(&final_path, serde_json::to_string_pretty(&j).unwrap());
            }
            Err(e) => {
                harness_errors.push(format!("shrink failed for {}: {}", f.replay, e));
                let _ = std::fs::copy(&f.replay, &final_path);
            }
        }
        new_violations.push((f.clone(), final_path));
    }
    let _ = std::fs::remove_dir_all(&tmp_replay);
    cleanup_child_tmp();

    // ---- evidence
    let wall = t0.elapsed().as_secs_f64();
    if !a.no_evidence {
        crate::evidence::write(a, &results, &new_violations, &known_hit, &sig_counts, wall);
    }
    for (f, path) in &new_violations {
        println!("VIOLATION property={} replay={}", a.prop, path);
        println!("  kind={} stage={} site={} msg={}", f.violation.kind, f.violation.stage, f.violation.site, f.violation.msg);
        println!("  detail: {}", f.violation.detail.lines().next().unwrap_or(""));
        println!("  profile={} seed={} job={} run={}  ({} occurrences)", f.profile, a.seed, f.job, f.sub, sig_counts.get(&f.violation.signature()).copied().unwrap_or(1));
    }
    // informational probes (never an alarm)
    {
        let mut notes: BTreeMap<String, u64> = BTreeMap::new();
        for (_, r) in &results {
            for (k, n) in &r.total.counters {
                if let Some(t) = k.strip_prefix("probe:NOTE:") {
                    *notes.entry(t.to_string()).or_insert(0) += n;
                }
            }
        }
        for (k, n) in notes {
            println!("NOTE: {} ({} runs)", k, n);
        }
    }
    let evals: u64 = results.iter().map(|(_, r)| r.total.evals).sum();
    println!(
        "[{}] tier={} seed={} evaluations={} new-violations={} known-findings={} wall={:.1}s",
        a.prop,
        a.tier.name(),
        a.seed,
        evals,
        new_violations.len(),
        known_hit.len(),
        wall
    );
    for e in &harness_errors {
        eprintln!("HARNESS-ERROR: {}", e);
    }
    let exit = if !new_violations.is_empty() {
        1
    } else if !harness_errors.is_empty() || evals == 0 {
        2
    } else {
        0
    };
    Outcome { exit }
}
