//! Per-property scenario generators. The run space of a property is a list of *jobs*; a job has
//! `len()` sub-runs and `plan(sub)` is a pure function of (VERIF_SEED, property, tier, job, sub).

use crate::faults;
use crate::format::{self, get, Kind, Map};
use crate::plan::{Edit, Plan, Workload, Wrapper};
use crate::rng::{mix, tag, Rng};
use crate::simreader::{gen_reader_plan, ReaderPlan, ERR_KINDS};
use crate::spec::{self, EncOpts};

#[derive(Clone, Copy, Debug, PartialEq, Eq)]
pub enum Tier {
    Quick,
    Thorough,
}

impl Tier {
    pub fn name(self) -> &'static str {
        match self {
            Tier::Quick => "quick",
            Tier::Thorough => "thorough",
        }
    }
}

pub struct Ctx {
    pub seed: u64,
    pub tier: Tier,
    pub corpus: Vec<(String, Vec<u8>)>, // small files first
    pub small_corpus: usize,            // how many of them are <= 16 KiB
    pub scale: u64,                     // VERIF_SCALE percent (100 = nominal run counts)
}

pub fn load_corpus() -> Vec<(String, Vec<u8>)> {
    let dir = std::path::Path::new("/repo/tests/data");
    let mut v: Vec<(String, Vec<u8>)> = Vec::new();
    if let Ok(rd) = std::fs::read_dir(dir) {
        let mut names: Vec<_> = rd
            .filter_map(|e| e.ok())
            .map(|e| e.path())
            .filter(|p| p.extension().map(|x| x == "aseprite").unwrap_or(false))
            .collect();
        names.sort();
        for p in names {
            if let Ok(b) = std::fs::read(&p) {
                v.push((p.file_name().unwrap().to_string_lossy().to_string(), b));
            }
        }
    }
    v.sort_by_key(|(n, b)| (b.len(), n.clone()));
    v
}

impl Ctx {
    pub fn new(seed: u64, tier: Tier) -> Ctx {
        let corpus = load_corpus();
        let small = corpus.iter().filter(|(_, b)| b.len() <= 16 << 10).count();
        let scale = std::env::var("VERIF_SCALE").ok().and_then(|s| s.parse().ok()).unwrap_or(100);
        Ctx {
            seed,
            tier,
            corpus,
            small_corpus: small,
            scale,
        }
    }
    fn n(&self, quick: u64, thorough: u64) -> u64 {
        let base = if self.tier == Tier::Quick { quick } else { thorough };
        (base * self.scale / 100).max(1)
    }
}

pub const BLOCK: u64 = 64;

#[derive(Clone, Debug)]
pub struct Base {
    pub desc: String,
    pub bytes: Vec<u8>,
    pub map: Map,
    pub bug: Option<String>,
}

/// Draw a base file: generated (optionally with a producer bug) or from the corpus.
pub fn gen_base(ctx: &Ctx, r: &mut Rng, allow_bug: bool, corpus_share: u64, max_len: usize) -> Base {
    for _ in 0..8 {
        if !ctx.corpus.is_empty() && r.chance(corpus_share, 100) {
            let k = if r.chance(9, 10) && ctx.small_corpus > 0 {
                r.usize_below(ctx.small_corpus)
            } else {
                r.usize_below(ctx.corpus.len())
            };
            let (name, bytes) = &ctx.corpus[k];
            if bytes.len() > max_len {
                continue;
            }
            return Base {
                desc: format!("corpus:{}", name),
                bytes: bytes.clone(),
                map: format::walk(bytes),
                bug: None,
            };
        }
        let gseed = r.next();
        let b = gen_from_seed(gseed, allow_bug && r.chance(1, 3), r, 0);
        if b.bytes.len() <= max_len {
            return b;
        }
    }
    gen_from_seed(1, false, r, 0)
}

pub fn gen_from_seed(gseed: u64, with_bug: bool, r: &mut Rng, scale: usize) -> Base {
    let mut sr = Rng::sub(gseed, "spec");
    let mut s = spec::gen_spec(&mut sr);
    let mut bug = None;
    let mut bugdesc = String::new();
    if with_bug {
        let b = *r.pick(spec::BUGS);
        let sc = if scale > 0 {
            scale
        } else {
            match b {
                "deep-nesting" | "deep-nesting-closed" => *r.pick(&[2usize, 10, 100, 1200, 3000]),
                "many-layers" => *r.pick(&[10usize, 300, 3000]),
                "many-frames-high-layer" => *r.pick(&[2usize, 3, 4, 20, 21, 22]),
                "many-tags" => *r.pick(&[10usize, 1000]),
                "deflate-bomb" => 1,
                "link-chain" => *r.pick(&[6usize, 7, 8, 9, 10, 11, 40, 41, 42, 43, 46, 47, 700, 702]),
                "many-palette-packets" => *r.pick(&[3usize, 300, 2000]),
                "userdata-props-deep" => *r.pick(&[1usize, 2, 3, 40, 41, 42, 4000, 4001, 4002]),
                "bomb-plus-error" => *r.pick(&[16usize, 17, 24, 25]),
                "bomb-with-links" => *r.pick(&[1usize, 2]),
                _ => 1,
            }
        };
        bugdesc = spec::apply_bug(&mut s, b, r, sc);
        bug = Some(b.to_string());
    }
    let opts = EncOpts {
        seed: gseed,
        neutral: true,
    };
    let bytes = spec::encode_with_bug(&s, &opts, bug.as_deref(), r);
    let map = format::walk(&bytes);
    Base {
        desc: match &bug {
            Some(b) => format!("gen:{:016x}+bug:{} ({})", gseed, b, bugdesc),
            None => format!("gen:{:016x}", gseed),
        },
        bytes,
        map,
        bug,
    }
}

fn boundaries(m: &Map) -> Vec<usize> {
    let mut v: Vec<usize> = vec![0, 128];
    for (a, b) in &m.frames {
        v.push(*a);
        v.push(*b);
        v.push(a + 16);
    }
    for c in &m.chunks {
        v.push(c.off);
        v.push(c.off + 6);
        v.push(c.off + c.size);
    }
    v.sort();
    v.dedup();
    v
}

fn sim_wrapper(r: &mut Rng, len: usize) -> Wrapper {
    match r.below(10) {
        0..=3 => Wrapper::Sim,
        4 | 5 => Wrapper::BufSim(*r.pick(&[1usize, 2, 3, 5, 7, 16, 100, 512, 8192])),
        6 => Wrapper::BufSim(1 + r.usize_below(8192)),
        7 => Wrapper::ChainSim(r.usize_below(len + 1)),
        _ => Wrapper::TakeSim,
    }
}

pub enum JobKind {
    /// BLOCK random runs; sub = index in block
    Random { first_run: u64 },
    /// every (field, value) cell of one base
    Cells { base: Base, cells: Vec<(usize, u64)>, pairs: Vec<([(usize, u64); 2], bool)>, fields: Vec<format::Field> },
    /// every cut of one base (C13); `variants` extra sampled reader variants
    Cuts { base: Base, cuts: Vec<usize>, variants: Vec<(usize, u8)> },
    /// every hard-error offset x kind of one base (C14)
    ErrMatrix { base: Base, n: usize },
    /// dedicated scale / bomb scenarios (C12, C04, C05)
    Special { items: Vec<(String, usize)> },
    Empty { why: String },
}

pub struct Job {
    pub prop: String,
    pub id: u64,
    pub kind: JobKind,
    pub seed: u64,
}

pub struct Layout {
    pub random_blocks: u64,
    pub cell_bases: u64,
    pub special: u64,
}

/// How many jobs of each phase a property has in this tier. Job ids are
/// [0, cell_bases) cells/cuts/matrix ; then special ; then random blocks.
pub fn layout(ctx: &Ctx, prop: &str) -> Layout {
    let nc = ctx.corpus.len() as u64;
    let small = ctx.small_corpus as u64;
    // The unoptimised profile is 4-10x slower; it explores a third of the random plans (same
    // structured walks and special scenarios). Supervisor and workers see the
    // same ASESIM_PROFILE, so job ids agree.
    let slow = std::env::var("ASESIM_PROFILE").map(|p| p == "unopt").unwrap_or(false);
    let l = layout_full(ctx, prop, nc, small);
    if slow {
        // corpus bases stay; generated structured bases are cut to a third in the thorough tier
        let corpus_part = match prop {
            "C04" | "C05" if ctx.tier == Tier::Thorough => small + 2,
            _ => l.cell_bases,
        };
        Layout {
            random_blocks: (l.random_blocks / 3).max(1),
            cell_bases: corpus_part.min(l.cell_bases) + (l.cell_bases.saturating_sub(corpus_part)) / 3,
            ..l
        }
    } else {
        l
    }
}

fn layout_full(ctx: &Ctx, prop: &str, nc: u64, small: u64) -> Layout {
    match prop {
        "C04" => Layout {
            cell_bases: if ctx.tier == Tier::Quick { small.min(12) + ctx.n(24, 0) } else { small + 2 + ctx.n(0, 400) },
            special: 1,
            random_blocks: ctx.n(1500, 40_000),
        },
        "C05" => Layout {
            cell_bases: if ctx.tier == Tier::Quick { small.min(12) + ctx.n(16, 0) } else { small + 2 + ctx.n(0, 300) },
            special: 1,
            random_blocks: ctx.n(1200, 30_000),
        },
        "C12" => Layout {
            cell_bases: if ctx.tier == Tier::Quick { small + ctx.n(60, 0) } else { nc.min(small + 2) + ctx.n(0, 1500) },
            special: 1,
            random_blocks: ctx.n(600, 12_000),
        },
        "C13" => Layout {
            cell_bases: if ctx.tier == Tier::Quick { small + ctx.n(500, 0) } else { nc.min(small + 3) + ctx.n(0, 5000) },
            special: 0,
            random_blocks: 0,
        },
        "C14" => Layout {
            cell_bases: if ctx.tier == Tier::Quick { ctx.n(6, 0) } else { small.min(20) + ctx.n(0, 100) },
            special: 0,
            random_blocks: ctx.n(1500, 40_000),
        },
        "C16" => Layout {
            cell_bases: 0,
            special: 0,
            random_blocks: ctx.n(250, 2500),
        },
        _ => Layout {
            cell_bases: 0,
            special: 0,
            random_blocks: 0,
        },
    }
}

pub fn num_jobs(ctx: &Ctx, prop: &str) -> u64 {
    let l = layout(ctx, prop);
    l.cell_bases + l.special + l.random_blocks
}

pub fn structured_base(ctx: &Ctx, prop: &str, k: u64, max_len: usize) -> Base {
    // k-th base of the structured phase: corpus files first (small ones), then generated
    let small = ctx.small_corpus as u64;
    let use_corpus = match (prop, ctx.tier) {
        ("C14", Tier::Quick) => 0,
        ("C14", Tier::Thorough) => small.min(20),
        ("C04", Tier::Quick) | ("C05", Tier::Quick) => small.min(12),
        (_, Tier::Quick) => small,
        ("C13", Tier::Thorough) => (ctx.corpus.len() as u64).min(small + 3),
        (_, Tier::Thorough) => (ctx.corpus.len() as u64).min(small + 2),
    };
    if k < use_corpus {
        let (name, bytes) = &ctx.corpus[k as usize];
        return Base {
            desc: format!("corpus:{}", name),
            bytes: bytes.clone(),
            map: format::walk(bytes),
            bug: None,
        };
    }
    let gseed = mix(&[ctx.seed, tag(prop), tag("structured"), k]);
    let mut r = Rng::new(gseed ^ 0x55);
    for attempt in 0..16u64 {
        let b = gen_from_seed(gseed.wrapping_add(attempt), false, &mut r, 0);
        if b.bytes.len() <= max_len {
            return b;
        }
    }
    gen_from_seed(1, false, &mut r, 0)
}

/// Every sixth generated base of the C04 / C12 field walks is a *consistent* file that uses a
/// feature the pinned tree refuses or ignores (embedded ICC profile, external-only tileset, link to
/// a tilemap cel, property maps): a change that starts to interpret such data gets its lengths,
/// counts and type codes walked like any other field. (C05 quantifies over files that load, so
/// these bases would be wasted there.)
fn refused_feature_base(prop: &str, seed: u64, id: u64, base: Base) -> Base {
    if !(prop == "C04" || prop == "C12") || !base.desc.starts_with("gen:") || id % 6 != 5 {
        return base;
    }
    let mut r = Rng::new(seed ^ 0xFEA7);
    match (id / 6) % 4 {
        0 => {
            // an ICC profile whose declared length is exactly what is there
            for attempt in 0..64u64 {
                let b = gen_special(seed.wrapping_add(attempt), "color-profile-icc", 1, &mut r);
                let ok = b.map.fields.iter().any(|f| {
                    f.chunk == "colorprofile" && f.name == "icc-len" && {
                        let v = crate::format::get(&b.bytes, f.off, f.width);
                        (16..=300).contains(&v)
                    }
                }) && b.map.complete;
                if ok && b.bytes.len() <= (64 << 10) {
                    return b;
                }
            }
            base
        }
        1 => gen_special(seed, "tileset-external-only", 1, &mut r),
        2 => gen_special(seed, "link-to-tilemap", 1, &mut r),
        _ => gen_special(seed, "userdata-props-deep", 3 + (id % 3) as usize, &mut r),
    }
}

pub fn make_job(ctx: &Ctx, prop: &str, id: u64) -> Job {
    let l = layout(ctx, prop);
    let seed = mix(&[ctx.seed, tag(prop), id]);
    let kind = if id < l.cell_bases {
        match prop {
            "C13" => {
                let mut base = structured_base(ctx, prop, id, 2 << 20);
                if base.desc.starts_with("gen:") {
                    let mut r = Rng::new(seed ^ 0xC13);
                    if id % 20 == 7 {
                        // ends in a chunk of a type this library may or may not know: if the whole
                        // file is rejected so is every prefix; if it is accepted, prefixes that end
                        // inside that chunk must still be rejected
                        base = with_unknown_last_chunk(base, &mut r);
                    } else if id % 389 == 33 {
                        base = many_chunks_last_frame(seed);
                    } else if id % 389 == 77 || id % 389 == 78 {
                        // last chunk above 1 MiB, compressed and raw (sparse cut set: dense around its end)
                        base = huge_chunk_base_with(&mut r, id % 389 == 77, false);
                    }
                }
                cuts_job(base, seed)
            }
            "C14" => {
                let base = structured_base(ctx, prop, id, 4 << 10);
                if base.bytes.len() > (4 << 10) || !base.map.complete {
                    JobKind::Empty {
                        why: "base too large for the error matrix".into(),
                    }
                } else {
                    let n = base.map.end;
                    JobKind::ErrMatrix { base, n }
                }
            }
            "C12" => {
                let base = structured_base(ctx, prop, id, 64 << 10);
                let base = refused_feature_base(prop, seed, id, base);
                cells_job(base, true)
            }
            _ => {
                let base = structured_base(ctx, prop, id, 16 << 10);
                let base = refused_feature_base(prop, seed, id, base);
                cells_job(base, false)
            }
        }
    } else if id < l.cell_bases + l.special {
        JobKind::Special {
            items: special_items(ctx, prop),
        }
    } else {
        JobKind::Random {
            first_run: (id - l.cell_bases - l.special) * BLOCK,
        }
    };
    Job {
        prop: prop.into(),
        id,
        kind,
        seed,
    }
}

pub fn cells_job(base: Base, inflate_only: bool) -> JobKind {
    let mut fields: Vec<format::Field> = faults::int_fields(&base.map).into_iter().cloned().collect();
    // every byte of every (not too long) string as a one-byte field: invalid UTF-8 at every position
    let nint = fields.len();
    if !inflate_only {
        let mut budget = 600usize;
        for f in base.map.fields.iter().filter(|f| f.name == "string-bytes" && f.width <= 96) {
            for i in 0..f.width {
                if budget == 0 {
                    break;
                }
                budget -= 1;
                fields.push(format::Field {
                    off: f.off + i,
                    width: 1,
                    chunk: f.chunk,
                    name: "string-byte",
                    kind: Kind::Value,
                });
            }
        }
    }
    let related = faults::related_values(&base.map);
    let mut cells = Vec::new();
    // bound per-base cell count: long per-entry tables (palette entries) are sampled
    let mut per_name: std::collections::BTreeMap<(&str, &str), usize> = Default::default();
    for (i, f) in fields.iter().enumerate() {
        if i >= nint {
            // string bytes: lone continuation byte, invalid byte, start of a 2- and of a 4-byte sequence
            for v in [0x80u64, 0xFF, 0xC3, 0xF0] {
                cells.push((i, v));
            }
            continue;
        }
        let seen = per_name.entry((f.chunk, f.name)).or_insert(0);
        *seen += 1;
        if *seen > 6 {
            continue;
        }
        let cur = faults::field_get(&base.bytes, f);
        if inflate_only {
            if !f.kind.is_sizeish() {
                continue;
            }
            for v in faults::inflated_values(f.width, cur) {
                cells.push((i, v));
            }
        } else {
            for v in faults::boundary_values(f.width, cur, &related) {
                cells.push((i, v));
            }
        }
    }
    // C12 only: pairs of container-level size fields inflated together (frame size x chunk
    // count x chunk size x frame count), because a bound derived from one declared field may be
    // "checked" only against another declared field.
    let mut pairs = Vec::new();
    if !inflate_only {
        // pairs of container-level fields at their extremes (0 / type maximum): a bound taken from
        // one declared field may be "checked" only against another declared field
        let container: Vec<usize> = fields
            .iter()
            .enumerate()
            .filter(|(i, f)| *i < nint && matches!((f.chunk, f.name), ("header", "frames") | ("frame", "frame-bytes") | ("frame", "old-chunks") | ("frame", "new-chunks") | ("chunk", "chunk-size")))
            .map(|(i, _)| i)
            .take(10)
            .collect();
        for a in 0..container.len() {
            for b in a + 1..container.len() {
                let (fa, fb) = (&fields[container[a]], &fields[container[b]]);
                let ext = |f: &format::Field| -> [u64; 3] { [0, (1u64 << (8 * f.width)) - 1, 15] };
                for va in ext(fa) {
                    for vb in ext(fb) {
                        pairs.push(([(container[a], va), (container[b], vb)], false));
                    }
                }
            }
        }
    }
    if inflate_only {
        let container: Vec<usize> = fields
            .iter()
            .enumerate()
            .filter(|(_, f)| matches!((f.chunk, f.name), ("header", "frames") | ("header", "file-size") | ("frame", "frame-bytes") | ("frame", "old-chunks") | ("frame", "new-chunks") | ("chunk", "chunk-size")))
            .map(|(i, _)| i)
            .take(14)
            .collect();
        for a in 0..container.len() {
            for b in a + 1..container.len() {
                let (fa, fb) = (&fields[container[a]], &fields[container[b]]);
                let vals = |f: &format::Field| -> Vec<u64> {
                    let max = (1u64 << (8 * f.width)) - 1;
                    if f.width >= 4 {
                        vec![max, 1 << 29, (1 << 24) + 1]
                    } else {
                        vec![max, max / 2 + 1]
                    }
                };
                for va in vals(fa) {
                    for vb in vals(fb) {
                        // each pair under two reader policies: full reads and one byte at a time
                        pairs.push(([(container[a], va), (container[b], vb)], false));
                        pairs.push(([(container[a], va), (container[b], vb)], true));
                    }
                }
            }
        }
        // correlated pairs inside one chunk: two declared fields that "agree with each other"
        // (count == last - first + 1, width x height == length, ...) prove nothing about the data
        for c in base.map.chunks.iter().take(40) {
            let inside: Vec<usize> = fields
                .iter()
                .enumerate()
                .filter(|(_, f)| f.off >= c.off + 6 && f.off < c.off + c.size && f.kind.is_sizeish() && f.width >= 2)
                .map(|(i, _)| i)
                .take(6)
                .collect();
            for a in 0..inside.len() {
                for b in a + 1..inside.len() {
                    let (fa, fb) = (&fields[inside[a]], &fields[inside[b]]);
                    let w = fa.width.min(fb.width);
                    let max = (1u64 << (8 * w)) - 1;
                    let mut vs: Vec<u64> = vec![max];
                    if w >= 4 {
                        vs.extend_from_slice(&[1 << 16, 1 << 22, 1 << 28]);
                    } else {
                        vs.push(1 << 12);
                    }
                    for v in vs {
                        for (da, db) in [(0i64, 0i64), (0, -1), (-1, 0), (1, 0), (0, 1)] {
                            let va = (v as i64 + da).clamp(0, max as i64) as u64;
                            let vb = (v as i64 + db).clamp(0, max as i64) as u64;
                            pairs.push(([(inside[a], va), (inside[b], vb)], false));
                        }
                    }
                }
            }
        }
    }
    JobKind::Cells { base, cells, pairs, fields }
}

fn cuts_job(base: Base, seed: u64) -> JobKind {
    if !base.map.complete {
        return JobKind::Empty {
            why: format!("base does not walk: {:?}", base.map.problem),
        };
    }
    let n = base.map.end;
    let mut cuts: Vec<usize> = Vec::new();
    if n <= 64 << 10 {
        cuts.extend(0..n);
    } else {
        cuts.extend(0..4096.min(n));
        // +-8 around frame/chunk boundaries; with very many boundaries a sample of them (the
        // first and last 60 always)
        let mut bnds = boundaries(&base.map);
        if bnds.len() > 500 {
            let mut br = Rng::sub(seed, "boundary-sample");
            let head: Vec<usize> = bnds[..60].to_vec();
            let tail: Vec<usize> = bnds[bnds.len() - 60..].to_vec();
            let mid: Vec<usize> = (0..380).map(|_| bnds[60 + br.usize_below(bnds.len() - 120)]).collect();
            bnds = head.into_iter().chain(mid).chain(tail).collect();
        }
        let many_fields = base.map.fields.len() > 20_000;
        for b in bnds {
            for d in 0..17usize {
                let c = (b + d).saturating_sub(8);
                if c < n {
                    cuts.push(c);
                }
            }
        }
        for (fi, f) in base.map.fields.iter().enumerate() {
            if many_fields && fi % 97 != 0 {
                continue;
            }
            if f.width <= 4 {
                for c in f.off..=(f.off + f.width) {
                    if c < n {
                        cuts.push(c);
                    }
                }
            }
        }
        let mut c = 4096;
        while c < n {
            cuts.push(c);
            c += 4093; // prime stride
        }
        cuts.sort();
        cuts.dedup();
    }
    // 1/16 of the cuts additionally through other reader seams
    let mut r = Rng::sub(seed, "variants");
    let mut variants = Vec::new();
    for (i, _) in cuts.iter().enumerate() {
        if r.chance(1, 16) {
            variants.push((i, r.below(5) as u8));
        }
    }
    // longest prefixes first, each seam preceded once by the complete file (variant code + 100 =
    // warm-up): whatever a load of the longer version leaves behind must not complete a shorter one
    variants.reverse();
    let mut with_warmup = Vec::with_capacity(variants.len() + 5);
    let mut warmed = [false; 5];
    for (i, v) in variants {
        if !warmed[v as usize] {
            warmed[v as usize] = true;
            with_warmup.push((usize::MAX, v + 100));
        }
        with_warmup.push((i, v));
    }
    JobKind::Cuts { base, cuts, variants: with_warmup }
}

fn special_items(ctx: &Ctx, prop: &str) -> Vec<(String, usize)> {
    let q = ctx.tier == Tier::Quick;
    let mut v: Vec<(String, usize)> = Vec::new();
    match prop {
        "C12" => {
            for mb in if q { vec![1usize, 8, 80] } else { vec![1, 8, 80, 200, 600] } {
                v.push(("deflate-bomb".into(), mb));
            }
            for n in if q { vec![100usize, 2000, 2001, 2002] } else { vec![100, 2000, 2001, 2002, 20_000, 20_001, 20_002, 65_533, 65_534, 65_535] } {
                v.push(("many-frames-high-layer".into(), n));
            }
            for n in if q { vec![1000usize] } else { vec![1000, 30_000, 65_535] } {
                v.push(("many-tags".into(), n));
            }
            for n in if q { vec![8usize, 32] } else { vec![8, 16, 32, 48, 64] } {
                v.push(("bomb-with-links".into(), n));
                v.push(("bomb-with-links".into(), n));
                v.push(("tilemap-bomb-with-links".into(), n.min(24)));
            }
            // one honest image well above 64 MiB *before* the small hostile files that follow in
            // this job: anything a load leaves behind in the process (size hints, pooled buffers)
            // is then charged to files that did not supply the bytes
            // (the hostile files come right after it: an intervening ordinary load may reset such state)
            for _ in 0..if q { 2 } else { 4 } {
                v.push(("bomb-with-links".into(), if q { 80 } else { 100 }));
                v.push(("huge-cel-tiny-stream".into(), 1));
                v.push(("huge-cel-tiny-stream".into(), 1));
                v.push(("huge-cel-tiny-stream".into(), 1));
            }
            for _ in 0..if q { 40 } else { 200 } {
                v.push(("chunk-size-boundary".into(), 1));
            }
            for n in if q { vec![8usize, 40] } else { vec![8, 40, 80, 200] } {
                v.push(("indexed-bomb-missing-index".into(), n));
            }
            for n in if q { vec![48usize, 49, 49, 64, 65, 65] } else { vec![32, 33, 48, 49, 49, 49, 64, 65, 65, 65, 80, 81, 81, 81] } {
                v.push(("bomb-plus-error".into(), n));
            }
            for n in if q { vec![4usize, 8] } else { vec![4, 8, 16, 32] } {
                v.push(("tileset-bomb".into(), n));
                v.push(("tileset-bomb".into(), n));
            }
            for n in if q { vec![5000usize, 5003] } else { vec![5000, 5003, 65_532, 65_535] } {
                v.push(("link-chain".into(), n));
            }
            for n in if q { vec![2000usize] } else { vec![2000, 20_000, 60_000] } {
                v.push(("many-layers".into(), n));
                v.push(("deep-nesting".into(), n));
            }
            for _ in 0..if q { 6 } else { 30 } {
                v.push(("huge-cel-tiny-stream".into(), 1));
                v.push(("palette-huge-range".into(), 1));
                v.push(("ext-files-huge-count".into(), 1));
                v.push(("tileset-count-wrap".into(), 1));
                v.push(("tileset-huge-count-zero-size".into(), 1));
            }
        }
        _ => {
            // C04 / C05: long and deep sequences up to the exploration size cap
            // (the deepest ones exceed the random-search size cap on purpose: they load in milliseconds)
            for n in if q { vec![500usize, 3000, 9000, 65_536] } else { vec![500, 3000, 9000, 30_000, 65_536] } {
                v.push(("deep-nesting".into(), n));
            }
            for n in if q { vec![3000usize, 30_000, 65_534] } else { vec![3000, 20_000, 30_000, 65_534] } {
                v.push(("deep-nesting-closed".into(), n));
            }
            for n in if q { vec![3000usize] } else { vec![3000, 30_000, 65_536] } {
                v.push(("many-layers".into(), n));
            }
            for n in if q { vec![1000usize] } else { vec![1000, 65_535] } {
                v.push(("many-tags".into(), n));
            }
            // recursive structures inside one chunk (property maps): depth is file-controlled
            for n in if q { vec![30_000usize, 30_001, 30_002, 300_000] } else { vec![3000, 3001, 3002, 30_000, 30_001, 30_002, 300_000, 300_001, 300_002, 2_000_001] } {
                v.push(("userdata-props-deep".into(), n));
            }
            for n in if q { vec![50usize, 51, 52] } else { vec![50, 51, 52, 2000, 2001, 2002] } {
                v.push(("many-frames-high-layer".into(), n));
            }
            for n in if q { vec![9000usize, 9001, 30_000, 30_001, 30_002, 30_003, 30_004, 30_005, 304, 305] } else { vec![9000, 9001, 30_000, 30_001, 30_002, 30_003, 30_004, 30_005, 304, 305, 65_526, 65_527, 65_532, 65_533, 65_534, 65_535] } {
                v.push(("link-chain".into(), n));
            }
            for _ in 0..if q { 8 } else { 60 } {
                v.push(("sparse-palette-gap".into(), 1));
            }
            // pairs executed back to back on one thread: a failed load, then the file that only a
            // decoder with leftover state would accept
            for k in 0..if q { 12usize } else { 80 } {
                v.push(("zlib-split-a".into(), 1000 + k));
                v.push(("zlib-split-b".into(), 1000 + k));
            }
            for k in 0..if q { 12usize } else { 80 } {
                v.push(("palette-shift-a".into(), 3000 + k));
                v.push(("palette-shift-b".into(), 3000 + k));
            }
            for n in if q { vec![300usize, 2000] } else { vec![300, 300, 2000, 2000, 20_000, 65_535] } {
                v.push(("many-palette-packets".into(), n));
            }
            for _ in 0..if q { 40 } else { 400 } {
                v.push(("chunk-size-boundary".into(), 1));
            }
            // renders whose extent exceeds i32: only where they finish in seconds (optimised build)
            if prop == "C05" {
                for _ in 0..if q { 1 } else { 4 } {
                    v.push(("tilemap-huge-extent".into(), 1));
                }
            }
            for b in spec::BUGS {
                if !matches!(*b, "deep-nesting" | "deep-nesting-closed" | "many-layers" | "many-tags" | "many-frames-high-layer" | "deflate-bomb" | "tilemap-huge-extent" | "link-chain" | "bomb-with-links" | "tilemap-bomb-with-links" | "tileset-bomb" | "indexed-bomb-missing-index" | "many-palette-packets" | "chunk-size-boundary" | "zlib-split-a" | "zlib-split-b" | "palette-shift-a" | "palette-shift-b" | "userdata-props-deep" | "bomb-plus-error") {
                    for _ in 0..if q { 2 } else { 12 } {
                        v.push((b.to_string(), 1));
                    }
                }
            }
        }
    }
    v
}

impl Job {
    pub fn len(&self) -> u64 {
        match &self.kind {
            JobKind::Random { .. } => BLOCK,
            JobKind::Cells { cells, pairs, .. } => (cells.len() + pairs.len()) as u64,
            JobKind::Cuts { cuts, variants, .. } => (cuts.len() + variants.len()) as u64,
            JobKind::ErrMatrix { n, .. } => (*n * ERR_KINDS.len()) as u64,
            JobKind::Special { items } => items.len() as u64,
            JobKind::Empty { .. } => 0,
        }
    }

    pub fn describe(&self) -> String {
        match &self.kind {
            JobKind::Random { first_run } => format!("random runs {}..{}", first_run, first_run + BLOCK),
            JobKind::Cells { base, cells, pairs, .. } => format!("{} field cells + {} field pairs of {}", cells.len(), pairs.len(), base.desc),
            JobKind::Cuts { base, cuts, variants } => format!("{} cuts (+{} reader variants) of {}", cuts.len(), variants.len(), base.desc),
            JobKind::ErrMatrix { base, n } => format!("error matrix {} offsets x {} kinds of {}", n, ERR_KINDS.len(), base.desc),
            JobKind::Special { items } => format!("{} special scenarios", items.len()),
            JobKind::Empty { why } => format!("empty: {}", why),
        }
    }

    pub fn plan(&self, ctx: &Ctx, sub: u64) -> Plan {
        let prop = self.prop.as_str();
        let mode = match prop {
            "C04" => "load",
            "C05" => "use",
            "C12" => "mem",
            "C13" => "trunc",
            "C14" => "reader",
            "C16" => "threads",
            _ => "load",
        };
        let rseed = mix(&[self.seed, sub]);
        let mut p = Plan::new(prop, mode, ctx.seed, self.id << 32 | sub);
        if mode == "use" {
            p.workload = Workload::Auto(rseed);
        }
        match &self.kind {
            JobKind::Empty { .. } => {}
            JobKind::Cells { base, cells, pairs, fields } => {
                p.base_desc = base.desc.clone();
                p.base = base.bytes.clone();
                if (sub as usize) < cells.len() {
                    let (fi, v) = cells[sub as usize];
                    p.edits.push(faults::field_edit(&base.bytes, &fields[fi], v));
                } else {
                    let (pr, one_byte) = pairs[sub as usize - cells.len()];
                    for (fi, v) in pr {
                        p.edits.push(faults::field_edit(&base.bytes, &fields[fi], v));
                    }
                    if one_byte {
                        p.reader.sizes = vec![1];
                    }
                }
                p.wrapper = if mode == "mem" || sub % 5 != 0 { Wrapper::Sim } else { Wrapper::Slice };
            }
            JobKind::Cuts { base, cuts, variants } => {
                p.base_desc = base.desc.clone();
                p.base = base.bytes.clone();
                let (ci, variant) = if (sub as usize) < cuts.len() {
                    (sub as usize, None)
                } else {
                    let (ci, v) = variants[sub as usize - cuts.len()];
                    (ci, Some(v))
                };
                let (variant, warmup) = match variant {
                    Some(v) if v >= 100 => (Some(v - 100), true),
                    v => (v, false),
                };
                let c = if warmup { base.bytes.len() } else { cuts[ci] };
                if warmup {
                    p.note = "warmup".into();
                } else {
                    p.edits.push(Edit {
                        label: format!("crash-prefix: only [0,{}) of {} durable", c, base.map.end),
                        off: c,
                        del: base.bytes.len(),
                        ins: vec![],
                    });
                }
                match variant {
                    None => p.wrapper = Wrapper::Slice,
                    Some(0) => {
                        p.wrapper = Wrapper::Sim;
                        p.reader.sizes = vec![1];
                    }
                    Some(1) => {
                        let mut r = Rng::new(rseed);
                        p.wrapper = sim_wrapper(&mut r, c);
                        p.reader = gen_reader_plan(&mut r, c as u64, &[], false);
                    }
                    Some(2) => p.wrapper = Wrapper::ReadFile,
                    Some(3) => p.wrapper = Wrapper::File,
                    Some(_) => {
                        // the writer of a pipe dies after c bytes
                        let mut r = Rng::new(rseed);
                        p.wrapper = Wrapper::Fifo;
                        p.reader.sizes = match r.below(3) {
                            0 => vec![],
                            1 => vec![1 + r.below(64) as u32],
                            _ => (0..4).map(|_| 1 + r.below(300) as u32).collect(),
                        };
                    }
                }
            }
            JobKind::ErrMatrix { base, n } => {
                let x = sub as usize / ERR_KINDS.len();
                let k = ERR_KINDS[sub as usize % ERR_KINDS.len()];
                let _ = n;
                let mut r = Rng::new(rseed);
                p.base_desc = base.desc.clone();
                p.base = base.bytes.clone();
                p.wrapper = Wrapper::Sim;
                // combined with a short-read policy drawn per cell
                p.reader = gen_reader_plan(&mut r, base.map.end as u64, &[], false);
                p.reader.error = Some((x as u64, k, r.chance(1, 2)));
            }
            JobKind::Special { items } => {
                let (bug, scale) = &items[sub as usize];
                let mut r = Rng::new(rseed);
                let b = gen_special(rseed, bug, *scale, &mut r);
                p.base_desc = b.desc;
                p.base = b.bytes;
                if bug == "tilemap-huge-extent" && std::env::var("ASESIM_PROFILE").map(|p| p == "unopt").unwrap_or(false) {
                    // would take minutes with the library unoptimised: not run in that profile
                    p.base.clear();
                    p.base_desc = format!("{} [not run in the unopt profile]", p.base_desc);
                    p.workload = Workload::None;
                } else if bug == "tilemap-huge-extent" {
                    p.note = "costcap=33".into();
                    // the sweep would render the huge tilemap several times: ask for one frame
                    p.workload = Workload::Explicit(vec![crate::observe::Op::FrameImage(0)]);
                }
                p.wrapper = if mode == "mem" || sub % 5 != 0 { Wrapper::Sim } else { Wrapper::Slice };
            }
            JobKind::Random { .. } => self.random_plan(ctx, &mut p, rseed),
        }
        p
    }

    fn random_plan(&self, ctx: &Ctx, p: &mut Plan, rseed: u64) {
        let mut r = Rng::sub(rseed, "plan");
        let cap = if ctx.tier == Tier::Quick { 256 << 10 } else { 2 << 20 };
        match p.mode.as_str() {
            "load" | "use" => {
                // C05 also needs plain well-formed files (the quantifier is "all that load")
                let pristine = p.mode == "use" && r.chance(1, 5);
                let base = gen_base(ctx, &mut r, true, 30, cap);
                let other = gen_base(ctx, &mut r, false, 30, cap);
                p.base_desc = base.desc.clone();
                let kinds: Vec<&str> = faults::FAULT_KINDS.to_vec();
                if !pristine && (base.bug.is_none() || r.chance(1, 3)) {
                    let (edits, _fired) = faults::gen_faults(&mut r, &base.bytes, &base.map, &other.bytes, &kinds);
                    p.edits = edits;
                }
                p.base = base.bytes;
                // SimReader (even with full reads) counts calls, so a loader that keeps polling a
                // reader at end of input is caught at once rather than by the wall-clock watchdog
                match r.below(25) {
                    0..=4 => {
                        p.wrapper = Wrapper::Sim;
                        p.reader = gen_reader_plan(&mut r, p.base.len() as u64, &[], false);
                    }
                    5..=9 => p.wrapper = Wrapper::Slice,
                    // the file-backed entry point is a separate public function
                    10 => p.wrapper = Wrapper::ReadFile,
                    _ => p.wrapper = Wrapper::Sim,
                }
            }
            "mem" => {
                let base = gen_base(ctx, &mut r, true, 30, cap);
                let other = gen_base(ctx, &mut r, false, 30, cap);
                p.base_desc = base.desc.clone();
                // bias: inflate one or two size fields; sometimes generic faults
                let sizeish: Vec<&format::Field> = faults::int_fields(&base.map).into_iter().filter(|f| f.kind.is_sizeish()).collect();
                if !sizeish.is_empty() && r.chance(3, 4) {
                    let k = if r.chance(3, 4) { 1 } else { 2 };
                    for _ in 0..k {
                        let f = sizeish[r.usize_below(sizeish.len())];
                        let cur = get(&base.bytes, f.off, f.width);
                        let vals = faults::inflated_values(f.width, cur);
                        if !vals.is_empty() {
                            p.edits.push(faults::field_edit(&base.bytes, f, *r.pick(&vals)));
                        }
                    }
                } else {
                    let (edits, _) = faults::gen_faults(&mut r, &base.bytes, &base.map, &other.bytes, faults::FAULT_KINDS);
                    p.edits = edits;
                }
                p.base = base.bytes;
                p.wrapper = Wrapper::Sim;
                if r.chance(1, 3) {
                    p.reader = gen_reader_plan(&mut r, p.base.len() as u64, &[], false);
                    // truncating reader: supplies only a prefix (EOF early) — memory must then
                    // be bounded by what was actually supplied
                    if r.chance(1, 2) {
                        p.edits.push(Edit {
                            label: "crash-prefix (supply only a prefix)".into(),
                            off: r.usize_below(p.base.len().max(1)),
                            del: usize::MAX / 2,
                            ins: vec![],
                        });
                    }
                }
            }
            "reader" => {
                let malformed = r.chance(1, 8);
                let base = if !malformed && r.chance(1, 150) {
                    // a chunk body above 1 MiB (read paths often switch strategy with size)
                    huge_chunk_base(&mut r)
                } else {
                    gen_base(ctx, &mut r, malformed, 25, 64 << 10)
                };
                p.base_desc = base.desc.clone();
                if malformed && base.bug.is_none() {
                    let other = gen_base(ctx, &mut r, false, 0, 64 << 10);
                    let (edits, _) = faults::gen_faults(&mut r, &base.bytes, &base.map, &other.bytes, &["field", "bitflip", "byte-set"]);
                    p.edits = edits;
                }
                let n = if base.map.complete { base.map.end } else { base.bytes.len() };
                let bnd = boundaries(&base.map);
                let hard = !malformed && r.chance(1, 2);
                p.reader = gen_reader_plan(&mut r, n as u64, &bnd, hard);
                p.wrapper = if hard {
                    sim_wrapper(&mut r, n)
                } else {
                    match r.below(13) {
                        0 => Wrapper::Cursor,
                        1 => Wrapper::ReadFile,
                        2 => Wrapper::File,
                        3 => Wrapper::Fifo,
                        _ => sim_wrapper(&mut r, n),
                    }
                };
                if let (Wrapper::ChainSim(split), Some((at, k, s))) = (p.wrapper, p.reader.error) {
                    // keep the hard error inside the simulated part
                    if split as u64 > at {
                        p.wrapper = Wrapper::ChainSim(at as usize);
                    }
                    p.reader.error = Some((at, k, s));
                }
                p.base = base.bytes;
            }
            "threads" => {
                let buggy = r.chance(1, 10);
                let base = gen_base(ctx, &mut r, buggy, 30, 64 << 10);
                p.base_desc = base.desc.clone();
                if r.chance(1, 10) {
                    let other = gen_base(ctx, &mut r, false, 0, 64 << 10);
                    let (edits, _) = faults::gen_faults(&mut r, &base.bytes, &base.map, &other.bytes, &["field", "bitflip", "byte-set"]);
                    p.edits = edits;
                }
                p.base = base.bytes;
                p.workload = Workload::Auto(rseed);
                p.threads = if r.chance(1, 8) { 0 } else { 2 + r.usize_below(15) };
                p.sched_policy = (*r.pick(crate::threads::POLICIES)).to_string();
            }
            _ => {}
        }
    }
}

pub fn gen_special(rseed: u64, bug: &str, scale: usize, r: &mut Rng) -> Base {
    // the two halves of a split stream must come from the same sprite and the same draws
    let paired = bug.starts_with("zlib-split") || bug.starts_with("palette-shift");
    let rseed = if paired { mix(&[0x5eed, scale as u64]) } else { rseed };
    let mut local = Rng::new(rseed ^ 0x1234);
    let r: &mut Rng = if paired { &mut local } else { r };
    let mut sr = Rng::sub(rseed, "spec");
    let mut s = spec::gen_spec(&mut sr);
    if scale > 100 || bug == "bomb-with-links" || bug == "tilemap-bomb-with-links" {
        // keep the rest of the sprite small so the file stays within the size cap
        s.durations.truncate(2);
        s.cels.retain(|c| (c.frame as usize) < 2);
        for t in &mut s.tags {
            t.from = t.from.min(1);
            t.to = t.to.min(1);
        }
        for sl in &mut s.slices {
            for k in &mut sl.keys {
                k.frame = k.frame.min(1);
            }
        }
    }
    let d = spec::apply_bug(&mut s, bug, r, scale);
    let opts = EncOpts {
        seed: rseed,
        neutral: scale <= 100,
    };
    let bytes = spec::encode_with_bug(&s, &opts, Some(bug), r);
    let map = format::walk(&bytes);
    Base {
        desc: format!("special:{:016x}+bug:{}@{} ({})", rseed, bug, scale, d),
        bytes,
        map,
        bug: Some(bug.into()),
    }
}

/// Structural class of a byte offset, for coverage cells.
pub fn position_class(m: &Map, off: usize) -> String {
    if off < 128 {
        return "header".into();
    }
    for (a, _) in &m.frames {
        if off >= *a && off < a + 16 {
            return "frame-header".into();
        }
    }
    for c in &m.chunks {
        if off >= c.off && off < c.off + 6 {
            return "chunk-header".into();
        }
        if off >= c.off + 6 && off < c.off + c.size {
            return format!("body:{}", format::chunk_name(c.ctype));
        }
    }
    "beyond".into()
}

pub fn is_boundary(m: &Map, off: usize) -> bool {
    off == 128 || m.frames.iter().any(|(a, b)| *a == off || *b == off) || m.chunks.iter().any(|c| c.off == off || c.off + c.size == off)
}

pub fn kind_of_field(m: &Map, off: usize) -> Option<(&'static str, &'static str, Kind)> {
    m.fields
        .iter()
        .find(|f| off >= f.off && off < f.off + f.width)
        .map(|f| (f.chunk, f.name, f.kind))
}

#[allow(dead_code)]
pub fn no_reader() -> ReaderPlan {
    ReaderPlan::default()
}

/// Base files of the C16 cross-profile cell walk: structurally rich corpus files first, then
/// generated sprites.
pub fn c16_cell_base(ctx: &Ctx, k: u64) -> Option<Base> {
    const RICH: &[&str] = &[
        "tilemap.aseprite",
        "256_color_old_palette_chunk.aseprite",
        "linked_cels.aseprite",
        "tilemap_indexed.aseprite",
        "layers_and_tags.aseprite",
        "indexed.aseprite",
        "tilemap_multi.aseprite",
        "user_data.aseprite",
        "slice_advanced.aseprite",
        "tilemap_empty_edges.aseprite",
        "background.aseprite",
        "palette.aseprite",
        "tilemap_grayscale.aseprite",
        "transparency.aseprite",
        "rawcel.aseprite",
        "grayscale.aseprite",
    ];
    if (k as usize) < RICH.len() {
        let (name, bytes) = ctx.corpus.iter().find(|(n, _)| n == RICH[k as usize])?;
        return Some(Base {
            desc: format!("corpus:{}", name),
            bytes: bytes.clone(),
            map: format::walk(bytes),
            bug: None,
        });
    }
    let gseed = mix(&[ctx.seed, tag("c16-cells"), k]);
    let mut r = Rng::new(gseed ^ 0x55);
    for attempt in 0..16u64 {
        let b = gen_from_seed(gseed.wrapping_add(attempt), false, &mut r, 0);
        if b.bytes.len() <= 6 << 10 {
            return Some(b);
        }
    }
    None
}

/// A small sprite whose last chunk is one raw image cel of more than 1 MiB.
pub fn huge_chunk_base(r: &mut Rng) -> Base {
    let compressed = r.chance(1, 2);
    huge_chunk_base_with(r, compressed, true)
}

/// `canonical` = no neutral encoding coins, so that the big cel really is the last chunk.
pub fn huge_chunk_base_with(r: &mut Rng, compressed_cel: bool, neutral: bool) -> Base {
    let gseed = r.next();
    let mut sr = Rng::sub(gseed, "spec");
    let mut s = spec::gen_spec(&mut sr);
    s.fmt = spec::Fmt::Rgba;
    s.tilesets.clear();
    for l in &mut s.layers {
        if l.kind == 2 {
            l.kind = 0;
        }
    }
    s.cels.retain(|c| matches!(c.body, spec::CelBody::Linked(_)) == false && !matches!(c.body, spec::CelBody::Tilemap { .. }));
    for c in &mut s.cels {
        if let spec::CelBody::Raw { w, h, pixels, .. } = &mut c.body {
            *pixels = vec![7; *w as usize * *h as usize * 4];
        }
    }
    let (w, h) = *r.pick(&[(640u16, 480u16), (520, 520), (1024, 300)]);
    let li = s.layers.iter().rposition(|l| l.kind == 0).unwrap_or(0) as u16;
    if s.layers[li as usize].kind != 0 {
        s.layers[li as usize].kind = 0;
    }
    let fi = (s.durations.len() - 1) as u16;
    s.cels.retain(|c| !(c.layer == li && c.frame == fi));
    // incompressible noise: the chunk stays above 1 MiB even when the cel is zlib-compressed
    let px = r.bytes(w as usize * h as usize * 4);
    s.cels.push(spec::CelSpec {
        frame: fi,
        layer: li,
        x: 0,
        y: 0,
        opacity: 255,
        body: spec::CelBody::Raw {
            w,
            h,
            pixels: px,
            compressed: compressed_cel,
            level: 1,
        },
        ud: None,
        extra: false,
    });
    let bytes = spec::encode(&s, &EncOpts { seed: gseed, neutral });
    let map = format::walk(&bytes);
    Base {
        desc: format!("gen:{:016x}+huge-raw-cel {}x{}", gseed, w, h),
        bytes,
        map,
        bug: None,
    }
}

/// Append a chunk of an unassigned type as the last chunk of the last frame.
fn with_unknown_last_chunk(base: Base, r: &mut Rng) -> Base {
    if !base.map.complete || base.map.frames.is_empty() {
        return base;
    }
    let mut bytes = base.bytes.clone();
    let n = 8 + r.usize_below(40);
    let ty = *r.pick(&[0x2099u16, 0x0001, 0x2021, 0x7777]);
    let mut ins = Vec::new();
    ins.extend_from_slice(&((6 + n) as u32).to_le_bytes());
    ins.extend_from_slice(&ty.to_le_bytes());
    ins.extend(r.bytes(n));
    let at = base.map.frames.last().unwrap().1;
    // insert_chunks attributes a position on a frame boundary to the earlier frame: the last one here
    spec::insert_chunks(&mut bytes, &base.map, at, &ins, 1);
    let map = format::walk(&bytes);
    Base {
        desc: format!("{}+unknown-last-chunk({:#06x},{}B)", base.desc, ty, n),
        bytes,
        map,
        bug: None,
    }
}

/// A well-formed sprite whose last frame has exactly 65 535 chunks announced only through the
/// old 16-bit count (new count 0), most of them 6-byte path chunks.
fn many_chunks_last_frame(seed: u64) -> Base {
    let gseed = mix(&[seed, tag("many-chunks")]);
    let mut sr = Rng::sub(gseed, "spec");
    let mut s = spec::gen_spec(&mut sr);
    s.durations.truncate(2);
    s.cels.retain(|c| (c.frame as usize) < s.durations.len());
    for t in &mut s.tags {
        t.from = 0;
        t.to = 0;
    }
    for sl in &mut s.slices {
        for k in &mut sl.keys {
            k.frame = 0;
        }
    }
    let bytes0 = spec::encode(&s, &EncOpts { seed: gseed, neutral: false });
    let m = format::walk(&bytes0);
    if !m.complete || m.frames.is_empty() {
        return Base { desc: "gen:many-chunks(failed)".into(), bytes: bytes0, map: m, bug: None };
    }
    let fi = m.frames.len() - 1;
    let have = m.chunks.iter().filter(|c| c.frame == fi).count();
    let need = 65_535usize.saturating_sub(have);
    let mut ins = Vec::with_capacity(need * 6);
    for _ in 0..need {
        ins.extend_from_slice(&6u32.to_le_bytes());
        ins.extend_from_slice(&0x2017u16.to_le_bytes());
    }
    let mut bytes = bytes0.clone();
    let at = m.frames[fi].1;
    let tail = bytes.split_off(at);
    bytes.extend_from_slice(&ins);
    bytes.extend_from_slice(&tail);
    let fstart = m.frames[fi].0;
    let fsz = format::get(&bytes, fstart, 4) as u32 + ins.len() as u32;
    format::put32(&mut bytes, fstart, fsz);
    format::put16(&mut bytes, fstart + 6, 0xFFFF); // old count
    format::put32(&mut bytes, fstart + 12, 0); // new count: "use the old one"
    let total = bytes.len() as u32;
    format::put32(&mut bytes, 0, total);
    let map = format::walk(&bytes);
    Base {
        desc: format!("gen:{:016x}+65535-chunk-last-frame(old-count-only)", gseed),
        bytes,
        map,
        bug: None,
    }
}
