//! Evidence file writer (/verif/evidence/<id>.json per EVIDENCE.schema.json).

use crate::props::Tier;
use crate::supervisor::{Found, ProfileResult, RunArgs};
use serde_json::{json, Map, Value};
use std::collections::{BTreeMap, BTreeSet, HashSet};

fn level(prop: &str) -> &'static str {
    match prop {
        "C12" | "C13" => "fault_enumeration",
        _ => "exploration",
    }
}

fn rule(prop: &str) -> &'static str {
    match prop {
        "C04" => "Runs = (a) every (integer field, boundary value) cell of each structured base file, (b) dedicated long/deep-sequence and producer-bug scenarios, (c) seeded random plans: base (generated sprite, optionally with one producer bug, or corpus file) + 1..3 storage faults (field/bitflip/byte-set/crash-prefix/torn/lost-sector/misdirected/splice/garbage), loaded through a slice or a short-reading SimReader, on a 2 MiB thread, allocator in machine mode, in each listed build profile. distinct = distinct (fault cell class [chunk.field:value-class or kind:position-class] x outcome class [ok / error-message template]) keys; non-trivial = the disk image differs from a well-formed base (or carries a producer bug) AND still starts with a valid 128-byte header so the parser gets past the file header.",
        "C05" => "evaluations = loads + accessor calls executed on loaded sprites. Same fault space as C04 plus pristine well-formed files; only runs whose load returns Ok become client sessions: full observation sweep + 20..80 random ops incl. documented-total lookups at extreme arguments. distinct = distinct (fault cell class x 'loaded') keys plus distinct (op, result digest) pairs; non-trivial = the file loaded AND (image differs from its base OR carries a producer bug OR is a generated multi-feature sprite).",
        "C12" => "Runs = every (size/count/length/index field, larger boundary value up to the type maximum) cell of each structured base, one at a time; deflate bombs, declared-huge cels, scale families; seeded random plans (inflated fields, generic storage faults, prefix-only supply). Load goes through SimReader with the counting allocator. distinct = distinct (base, fault list) keys; non-trivial = the run's reader delivered bytes past every faulted field's offset (the inflated field was actually parsed).",
        "C13" => "Every strict prefix [0,c) with c < end-of-last-frame of every base file up to 64 KiB (larger corpus files: first 4 KiB, +-8 around every frame/chunk boundary, every integer field, prime stride), each loaded from a slice; 1/16 of the cuts additionally through SimReader (1-byte reads / drawn schedule + wrapper) and through real truncated temp files (File, read_file). distinct = distinct (file, cut, reader seam) triples; non-trivial = cut >= 128 (past the file header).",
        "C14" => "Seeded random runs: base (generated or corpus, 1/8 malformed) x reader schedule (short-read policy, EINTR placements biased into in-flight state, optional hard error strictly before the consumed length) x wrapper (SimReader bare / BufReader(cap) / Chain / Take / Cursor / File / read_file); thorough also the full (offset x error kind) matrix of small bases. distinct = distinct reader event traces (digest of the (requested, result) sequence); non-trivial = at least one read was short, interrupted or failed.",
        "C16" => "Seeded random runs: loadable base x op history (sweep sample + random ops with repeats) evaluated (1) sequentially against a memo table, (2) permuted on a second load of the same bytes, (3) from 2..16 real threads released one op at a time by the seeded baton scheduler (uniform / PCT / round-robin / starve / bursts); plus Miri seeds, the cross-profile digest diff and the Send+Sync compile check (reported under coverage.extra). distinct = distinct baton schedules (digest of thread count + thread id sequence); non-trivial = at least 2 threads executed at least one op each on a sprite that has a cel.",
        _ => "",
    }
}

pub fn write(
    a: &RunArgs,
    results: &[(String, ProfileResult)],
    new_violations: &[(Found, String)],
    known_hit: &BTreeSet<String>,
    sig_counts: &BTreeMap<String, u64>,
    wall: f64,
) {
    let mut evals = 0u64;
    let mut distinct: HashSet<u64> = HashSet::new();
    let mut counters: BTreeMap<String, u64> = BTreeMap::new();
    let mut maxes: BTreeMap<String, u64> = BTreeMap::new();
    let mut samples: Vec<Value> = Vec::new();
    let mut per_profile = Map::new();
    for (p, r) in results {
        evals += r.total.evals;
        for d in &r.total.distinct {
            distinct.insert(*d);
        }
        for (k, n) in &r.total.counters {
            *counters.entry(k.clone()).or_insert(0) += n;
        }
        for (k, n) in &r.total.max {
            let e = maxes.entry(k.clone()).or_insert(0);
            *e = (*e).max(*n);
        }
        for s in r.total.samples.iter().take(3) {
            let mut s = s.clone();
            s["profile"] = json!(p);
            samples.push(s);
        }
        per_profile.insert(
            p.clone(),
            json!({
                "evaluations": r.total.evals,
                "wall_s": (r.wall_s * 10.0).round() / 10.0,
                "runs_per_hour": if r.wall_s > 0.0 { (r.total.evals as f64 / r.wall_s * 3600.0) as u64 } else { 0 },
                "batch_digest": format!("{:016x}", r.total.batch_digest),
                "raw_violations": r.found.len(),
            }),
        );
    }
    let group = |prefix: &str| -> Value {
        let m: Map<String, Value> = counters
            .iter()
            .filter(|(k, _)| k.starts_with(prefix))
            .map(|(k, v)| (k[prefix.len()..].to_string(), json!(v)))
            .collect();
        Value::Object(m)
    };
    let probes = group("probe:");
    let zero_probes: Vec<String> = expected_probes(&a.prop)
        .iter()
        .filter(|p| counters.get(&format!("probe:{}", p)).copied().unwrap_or(0) == 0)
        .map(|s| s.to_string())
        .collect();
    for z in &zero_probes {
        eprintln!("WARNING: reach probe '{}' was never hit in this run", z);
    }
    let mut outcomes: Vec<(String, u64)> = counters
        .iter()
        .filter(|(k, _)| k.starts_with("outcome:"))
        .map(|(k, v)| (k["outcome:".len()..].to_string(), *v))
        .collect();
    outcomes.sort_by(|a, b| b.1.cmp(&a.1));
    let outcome_classes = outcomes.len();
    outcomes.truncate(40);
    let exhaustive_note = match a.prop.as_str() {
        "C13" => "exhaustive over cut offsets for every base <= 64 KiB; sampled over base files",
        "C12" => "exhaustive over (size-ish field, inflated value) cells of each structured base; sampled over base files",
        _ => "sampled",
    };
    let ev = json!({
        "property_id": a.prop,
        "tier": a.tier.name(),
        "seed": a.seed,
        "level": level(&a.prop),
        "wall_s": (wall * 10.0).round() / 10.0,
        "violations": new_violations.len(),
        "coverage": {
            "evaluations": evals,
            "distinct_nontrivial": distinct.len(),
            "rule": rule(&a.prop),
            "samples": samples,
            "exhaustive": false,
            "exhaustiveness": exhaustive_note,
            "nontrivial_runs": counters.get("nontrivial-runs").copied().unwrap_or(0),
            "runs_per_hour": if wall > 0.0 { (evals as f64 / wall * 3600.0) as u64 } else { 0 },
            "seeds_per_hour": "one VERIF_SEED per invocation; every run derives its own seed = mix(VERIF_SEED, property, job, run)",
            "simulated_time": "not applicable: the library reads no clock and sets no timer; progress is counted in reader events and scheduler steps",
            "reader_events": counters.get("reader:calls").copied().unwrap_or(0),
            "scheduler_steps": counters.get("sched:steps").copied().unwrap_or(0),
            "per_profile": per_profile,
            "fault_kinds_fired": group("fault-fired:"),
            "reader_faults": group("reader:"),
            "wrappers": group("wrapper:"),
            "reach_probes": probes,
            "reach_probes_at_zero": zero_probes,
            "field_cells_visited": group("cell:"),
            "cut_classes": group("cut-class:"),
            "ops_executed": group("op:"),
            "ops_total": counters.get("ops:done").copied().unwrap_or(0),
            "ops_skipped_as_too_costly": counters.get("ops:skipped-too-costly").copied().unwrap_or(0),
            "sched_policies": group("sched-policy:"),
            "thread_counts": group("threads:"),
            "bases": group("base:"),
            "outcome_classes": outcome_classes,
            "outcome_histogram_top": outcomes.iter().map(|(k, v)| json!([k, v])).collect::<Vec<_>>(),
            "max_alloc_peak_bytes": maxes.get("alloc-peak").copied().unwrap_or(0),
            "max_single_request_bytes": maxes.get("alloc-largest-request").copied().unwrap_or(0),
            "simulated_machine": "allocation refused (=> process abort) above max(4 GiB, 64 MiB + 8192 x file length) of live bytes inside a load or accessor call (C04/C05); counting only for C12",
            "components": {
                "real": ["asefile (AsepriteFile::read / read_file, every accessor)", "std::io::BufReader/Chain/Take/Cursor", "flate2 inflate inside asefile", "real temp files for the File/read_file wrappers", "OS threads (parked; released one op at a time)"],
                "stub": ["producer: SpriteSpec generator + encoder (stands in for the Aseprite writer)", "SimDisk byte image + storage faults", "SimReader (Read seam)", "tracking global allocator (simulated machine size)", "baton scheduler"]
            },
            "known_findings_matched": known_hit.iter().cloned().collect::<Vec<_>>(),
            "new_violation_signatures": new_violations.iter().map(|(f, p)| json!({"signature": f.violation.signature(), "replay": p, "occurrences": sig_counts.get(&f.violation.signature())})).collect::<Vec<_>>(),
            "extra": Value::Null,
        },
        "assumptions": assumptions(&a.prop, a.tier),
    });
    let dir = format!("{}/evidence", a.verif_dir);
    let _ = std::fs::create_dir_all(&dir);
    let path = format!("{}/{}.json", dir, a.prop);
    std::fs::write(&path, serde_json::to_string_pretty(&ev).unwrap()).expect("write evidence");
}

fn expected_probes(prop: &str) -> Vec<&'static str> {
    match prop {
        "C04" => vec!["faulted-file-loaded", "fault-in:header", "fault-in:frame-header", "fault-in:chunk-header", "fault-in:body:cel", "fault-in:body:layer"],
        "C05" => vec!["faulted-file-loaded"],
        "C14" => vec![
            "primitive-split-across-reads",
            "hard-error-in:header",
            "hard-error-in:frame-header",
            "hard-error-in:chunk-header",
            "hard-error-in:on-boundary",
            "hard-error-in:body:cel",
            "bufreader-smaller-than-a-primitive",
        ],
        _ => vec![],
    }
}

fn assumptions(prop: &str, _tier: Tier) -> Vec<&'static str> {
    let mut v = vec![
        "sampling, not proof: holds for the seeds, files, cuts, offsets and cells explored",
        "the harness's chunk walker and encoder describe the container format correctly (cross-checked: every generated base must walk completely and, where the property needs it, load)",
    ];
    match prop {
        "C04" | "C05" => v.push("the watchdog (90 s quick / 240 s thorough per run) is the only wall-clock dependency; ops whose work estimate exceeds 2^22 blend steps are skipped and counted"),
        "C12" => v.push("live heap = bytes requested through the global allocator on the loading thread between entry and return of AsepriteFile::read (realloc counted as free+alloc); allocator-internal overhead is not counted"),
        "C13" => v.push("end of last frame = end of the sequential chunk structure as the harness walker derives it; cross-checked against the bytes the reference load consumed"),
        "C14" => v.push("real-file wrappers (File, read_file) cannot have faults injected; they contribute equality only"),
        "C16" => v.push("baton scheduling interleaves at accessor-call granularity; finer interleavings only under Miri (small sprites)"),
        _ => {}
    }
    v
}
