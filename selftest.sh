#!/usr/bin/env bash
# Self-tests of the simulator.
#   selftest.sh regress [PROP]        replay the recorded failing runs of repaired defects: none may reproduce
#   selftest.sh determinism [PROPS]   same seed => same per-run digests across processes and worker counts
#   selftest.sh sensitivity [NAMES]   every mutant / seeded change must be caught by its property's quick check
set -u
HERE="$(cd "$(dirname "${BASH_SOURCE[0]}")" && pwd)"
. "$HERE/env.sh"
cmd="${1:-}"; shift || true

case "$cmd" in
regress)
  prop="${1:-}"
  shopt -s nullglob
  files=("$HERE"/regress/${prop:-C}*.json)
  [ ${#files[@]} -eq 0 ] && exit 0
  build optchk || exit 2
  rc=0; n=0
  for f in "${files[@]}"; do
    n=$((n+1))
    out="$("$(exe optchk)" replay "$f" --exe "optchk=$(exe optchk)" 2>&1)"; r=$?
    if [ $r -eq 1 ]; then
      echo "$out" | grep -v '^VIOLATION' | head -4
      p="$(echo "$out" | sed -n 's/^VIOLATION property=\([A-Z0-9]*\) .*/\1/p' | head -1)"
      echo "VIOLATION property=${p:-$prop} replay=$f"
      echo "  a defect recorded as fixed in known_findings.json reproduces again"
      rc=1
    elif [ $r -ge 2 ]; then
      echo "HARNESS-ERROR: regress replay of $f failed: $(echo "$out" | tail -2)" >&2
      [ $rc -eq 0 ] && rc=2
    fi
  done
  echo "[regress${prop:+ $prop}] $n recorded failing runs replayed, $( [ $rc -eq 0 ] && echo none reproduce || echo SOME REPRODUCE )"
  exit $rc;;

determinism)
  props=("$@"); [ ${#props[@]} -eq 0 ] && props=(C04 C05 C12 C13 C14 C16)
  build optchk || exit 2
  D="$TARGET/determinism"; rm -rf "$D"; mkdir -p "$D"
  export VERIF_SCALE="${VERIF_SCALE:-8}"
  rc=0
  for p in "${props[@]}"; do
    i=0
    for w in 16 16 5 1; do
      i=$((i+1))
      mkdir -p "$D/out$i"
      "$(exe optchk)" run "$p" --tier quick --seed "${VERIF_SEED:-1}" --workers "$w" --verif "$D/out$i" --known "$HERE/known_findings.json" \
          --exe "optchk=$(exe optchk)" --dump "$D/$p.$i" --no-evidence > "$D/$p.$i.log" 2>&1
      cat "$D/$p.$i".[0-9]* 2>/dev/null | sort -n -k1,1 -k2,2 > "$D/$p.$i.sorted"
      rm -f "$D/$p.$i".[0-9]*
    done
    n=$(wc -l < "$D/$p.1.sorted")
    ok=1
    for i in 2 3 4; do cmp -s "$D/$p.1.sorted" "$D/$p.$i.sorted" || { ok=0; echo "DIVERGENCE: $p run listing 1 vs $i:"; diff "$D/$p.1.sorted" "$D/$p.$i.sorted" | head -5; }; done
    if [ $ok -eq 1 ] && [ "$n" -gt 0 ]; then echo "[determinism] $p: $n runs x 4 executions (workers 16,16,5,1; separate processes): identical per-run digests"; else rc=1; fi
  done
  exit $rc;;

sensitivity)
  # Each mutant: scratch worktree of /repo outside /repo and /verif, patch applied, harness built against it
  # (cargo paths override, separate target dir), the property's quick check must exit 1 with a VIOLATION
  # line whose replay file reproduces. The worktree and its output are removed afterwards.
  names=("$@")
  shopt -s nullglob
  patches=()
  if [ ${#names[@]} -eq 0 ]; then
    patches=("$HERE"/mutants/*.patch "$HERE"/seeded/*/patch.diff)
  else
    for n in "${names[@]}"; do
      [ -f "$HERE/mutants/$n.patch" ] && patches+=("$HERE/mutants/$n.patch")
      [ -f "$HERE/seeded/$n/patch.diff" ] && patches+=("$HERE/seeded/$n/patch.diff")
    done
  fi
  RES="$HERE/mutants/sensitivity_results.txt"
  rc=0
  for pf in "${patches[@]}"; do
    case "$pf" in
      */seeded/*) name="$(basename "$(dirname "$pf")")"; prop="$(python3 -c 'import json,sys; print(json.load(open(sys.argv[1]))["property"])' "$(dirname "$pf")/meta.json")";;
      *) name="$(basename "$pf" .patch)"; prop="${name%%-*}";;
    esac
    WT="/tmp/asesim-sens-$$"; OUTD="/tmp/asesim-sens-out-$$"
    git -C /repo worktree remove --force "$WT" >/dev/null 2>&1; rm -rf "$OUTD"; mkdir -p "$OUTD"
    git -C /repo worktree add -q --detach "$WT" HEAD || { echo "cannot create worktree" >&2; exit 2; }
    if ! git -C "$WT" apply "$pf"; then echo "$name: patch does not apply"; git -C /repo worktree remove --force "$WT"; rc=2; continue; fi
    t0=$(date +%s)
    out="$(VERIF_MAX_VIOLATIONS="${VERIF_MAX_VIOLATIONS:-80}" VERIF_REPO_OVERRIDE="$WT" VERIF_TARGET_DIR="$SIM/target/mut" VERIF_OUT="$OUTD" VERIF_SCALE="${VERIF_SCALE:-100}" "$HERE/check" "$prop" quick 2>&1)"; r=$?
    t1=$(date +%s)
    # a check may report several violations; the change counts as caught if any of their replay
    # files reproduces in a fresh process
    rr="-"; kind="-"
    if [ $r -eq 1 ]; then
      while read -r rp; do
        [ -n "$rp" ] && [ -f "$rp" ] || continue
        VERIF_REPO_OVERRIDE="$WT" VERIF_TARGET_DIR="$SIM/target/mut" VERIF_OUT="$OUTD" "$HERE/check" replay "$rp" > "$OUTD/replay.log" 2>&1; rr=$?
        kind="$(python3 -c 'import json,sys; e=json.load(open(sys.argv[1])).get("expected",{}); print(e.get("signature","?"))' "$rp" 2>/dev/null)"
        [ "$rr" = "1" ] && break
      done < <(echo "$out" | sed -n 's/^VIOLATION .*replay=\(.*\)$/\1/p')
    fi
    if [ $r -eq 1 ] && [ "$rr" = "1" ]; then verdict="CAUGHT"; else
      verdict="MISSED(exit=$r replay=$rr)"; rc=1
      # does the change break (and do we catch it under) another claimed property?
      if [ -n "${SENS_TRY_OTHERS:-1}" ]; then
        for other in C16 C14 C04 C05 C12 C13; do
          [ "$other" = "$prop" ] && continue
          o2="$(VERIF_MAX_VIOLATIONS=40 VERIF_REPO_OVERRIDE="$WT" VERIF_TARGET_DIR="$SIM/target/mut" VERIF_OUT="$OUTD" "$HERE/check" "$other" quick 2>&1)"; r2=$?
          if [ $r2 -eq 1 ]; then
            rp2="$(echo "$o2" | grep -m1 '^VIOLATION' | sed -n 's/.*replay=\(.*\)$/\1/p')"
            k2="$(python3 -c 'import json,sys; e=json.load(open(sys.argv[1])).get("expected",{}); print(e.get("signature","?"))' "$rp2" 2>/dev/null)"
            verdict="MISSED-under-$prop;CAUGHT-under-$other"; kind="$k2"; break
          fi
        done
      fi
    fi
    printf "%-34s %-4s %-22s %4ss  %s\n" "$name" "$prop" "$verdict" "$((t1-t0))" "$kind"
    [ "$verdict" = "CAUGHT" ] || echo "$out" | tail -5
    git -C /repo worktree remove --force "$WT"; rm -rf "$OUTD"
  done | tee "$RES.tmp"
  rc=${PIPESTATUS[0]}
  grep -q MISSED "$RES.tmp" && rc=1
  # merge into the accumulated table (latest verdict per name wins)
  python3 - "$RES" "$RES.tmp" <<'PY'
import sys,re,os
res,tmp=sys.argv[1:]
d={}
for f in (res,tmp):
    if os.path.exists(f):
        for l in open(f):
            m=re.match(r'^(C\d+-\S+)\s',l)
            if m: d[m.group(1)]=l.rstrip("\n")
open(res+".new","w").write("\n".join(d[k] for k in sorted(d))+"\n")
os.replace(res+".new",res)
PY
  rm -f "$RES.tmp"
  exit $rc;;
benign)
  # Harmless variants (/verif/benign/<id>/patch.diff: behaviour or internals change, every property
  # still holds): all six quick checks must stay silent (exit 0) on each of them.
  names=("$@")
  shopt -s nullglob
  dirs=()
  if [ ${#names[@]} -eq 0 ]; then dirs=("$HERE"/benign/*/); else for n in "${names[@]}"; do dirs+=("$HERE/benign/$n/"); done; fi
  RES="$HERE/benign/benign_results.txt"
  rc=0
  for d in "${dirs[@]}"; do
    name="$(basename "$d")"; pf="$d/patch.diff"; [ -f "$pf" ] || continue
    WT="/tmp/asesim-benign-$$"; OUTD="/tmp/asesim-benign-out-$$"
    git -C /repo worktree remove --force "$WT" >/dev/null 2>&1; rm -rf "$OUTD"; mkdir -p "$OUTD"
    git -C /repo worktree add -q --detach "$WT" HEAD || exit 2
    if ! git -C "$WT" apply "$pf"; then echo "$name: patch does not apply"; git -C /repo worktree remove --force "$WT"; continue; fi
    line="$name:"
    for prop in ${BENIGN_PROPS:-C04 C05 C12 C13 C14 C16}; do
      out="$(VERIF_REPO_OVERRIDE="$WT" VERIF_TARGET_DIR="$SIM/target/mut" VERIF_OUT="$OUTD" "$HERE/check" "$prop" quick 2>&1)"; r=$?
      if [ $r -eq 0 ]; then line="$line $prop=silent"; else
        line="$line $prop=ALARM(exit=$r)"; rc=1
        echo "$out" | grep -E "^VIOLATION|^  kind=|^  detail|HARNESS-ERROR" | head -6 | sed "s/^/    [$name $prop] /"
        v="$(echo "$out" | grep -m1 '^VIOLATION' | sed -n 's/.*replay=\(.*\)$/\1/p')"
        [ -n "$v" ] && [ -f "$v" ] && mkdir -p "$HERE/benign/$name/alarms" && cp "$v" "$HERE/benign/$name/alarms/"
      fi
    done
    echo "$line"
    git -C /repo worktree remove --force "$WT"; rm -rf "$OUTD"
  done | tee "$RES.tmp"
  grep -q ALARM "$RES.tmp" && rc=1
  python3 - "$RES" "$RES.tmp" <<'PY'
import sys,os
res,tmp=sys.argv[1:]
d={}
for f in (res,tmp):
    if os.path.exists(f):
        for l in open(f):
            if ":" in l and not l.startswith(" "):
                d[l.split(":")[0]]=l.rstrip("\n")
open(res+".new","w").write("\n".join(d[k] for k in sorted(d))+"\n")
os.replace(res+".new",res)
PY
  rm -f "$RES.tmp"
  exit $rc;;
*)
  echo "usage: selftest.sh regress [PROP] | determinism [PROPS...] | sensitivity [NAMES...] | benign [NAMES...]" >&2; exit 2;;
esac
