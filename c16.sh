#!/usr/bin/env bash
# C16 — immutable, thread-safe, deterministic value. Four obligations, all must pass:
#   1 type        Send + Sync compile check (/verif/typecheck)
#   2+3a          histories, permutations and seeded baton schedules (asesim run C16)
#   3b            Miri's seeded scheduler over free-running threads (asesim miri-c16 under Miri)
#   4             identical observation digests across build profiles and processes
# usage: c16.sh <quick|thorough> <seed> <workers>      |  c16.sh replay <file>
set -u
HERE="$(cd "$(dirname "${BASH_SOURCE[0]}")" && pwd)"
. "$HERE/env.sh"
T0=$(date +%s.%N)

typecheck() { # -> 0 ok, 1 violation, 2 harness error
  local log="$TARGET/typecheck.log"
  if (cd "$HERE/typecheck" && CARGO_TARGET_DIR="$TARGET/typecheck" cargo check --offline --quiet "${CARGO_CFG[@]}" 2> "$log"); then return 0; fi
  if grep -qE "cannot be (sent|shared) between threads safely|is not satisfied.*(Send|Sync)|E0277" "$log" && grep -q "asefile-typecheck\|typecheck" "$log" && ! grep -q "could not compile \`asefile\`" "$log"; then
    return 1
  fi
  return 2
}

digests() { # profile from to outfile
  local prof="$1" from="$2" to="$3" out="$4" w="$5"
  local step=$(( (to - from + w - 1) / w )); [ "$step" -lt 1 ] && step=1
  local i=0 a="$from"
  rm -f "$out".part.*
  while [ "$a" -lt "$to" ]; do
    local b=$(( a + step )); [ "$b" -gt "$to" ] && b="$to"
    "$(exe "$prof")" c16-digest --seed "$SEED" --from "$a" --to "$b" > "$out.part.$(printf %04d $i)" 2>/dev/null &
    a="$b"; i=$(( i + 1 ))
  done
  wait
  cat "$out".part.* > "$out"; rm -f "$out".part.*
}

miri_run() { # seeds_lo seeds_hi rate cases  -> writes $MIRILOG ; returns miri's exit code
  local lo="$1" hi="$2" rate="$3" cases="$4"
  (cd "$SIM" && MIRIFLAGS="-Zmiri-many-seeds=$lo..$hi -Zmiri-preemption-rate=$rate -Zmiri-disable-isolation" \
     CARGO_TARGET_DIR="$TARGET/miri" cargo +nightly miri run --offline --quiet "${CARGO_CFG[@]}" -- miri-c16 "$SEED" "$cases" > "$MIRILOG" 2>&1)
}

if [ "${1:-}" = "replay" ]; then
  f="$2"
  fmt="$(python3 -c 'import json,sys; print(json.load(open(sys.argv[1])).get("format",""))' "$f")"
  SEED="$(python3 -c 'import json,sys; print(json.load(open(sys.argv[1])).get("seed",1))' "$f")"
  mkdir -p "$TARGET"
  case "$fmt" in
    asesim-c16-typecheck)
      typecheck; rc=$?
      if [ $rc -eq 1 ]; then grep -E "^error" -A12 "$TARGET/typecheck.log" | head -30; echo "VIOLATION property=C16 replay=$f"; exit 1; fi
      [ $rc -eq 2 ] && { echo "HARNESS-ERROR: typecheck crate does not build for another reason" >&2; tail -20 "$TARGET/typecheck.log" >&2; exit 2; }
      echo "replay $f: Send + Sync holds"; exit 0;;
    asesim-c16-profile-diff)
      build optchk unopt rel || exit 2
      run="$(python3 -c 'import json,sys; print(json.load(open(sys.argv[1]))["run"])' "$f")"
      ndig="$(python3 -c 'import json,sys; print(json.load(open(sys.argv[1])).get("runs",0))' "$f")"
      w1="$(python3 -c 'import json,sys; print(json.load(open(sys.argv[1])).get("workers",16))' "$f")"
      # each listing is recomputed by a process that executes the same chunk of runs as in the
      # original batch (state leaking from earlier runs of a process is part of the replay)
      one() { # profile workers
        local step=$(( (ndig + $2 - 1) / $2 )); [ "$step" -lt 1 ] && step=1
        local a=$(( run / step * step )); local b=$(( a + step )); [ "$b" -gt "$ndig" ] && b="$ndig"; [ "$b" -le "$run" ] && b=$((run+1))
        "$(exe "$1")" c16-digest --seed "$SEED" --from "$a" --to "$b" 2>/dev/null | awk -v r="$run" '$1==r'
      }
      # a difference *between processes* may itself vary from process to process (hash seeds, address
      # layout): the comparison is repeated; any disagreement reproduces the violation
      for attempt in $(seq 1 12); do
        a="$(one unopt "$w1")"; b="$(one rel "$w1")"; c="$(one optchk "$w1")"; d="$(one optchk 7)"; e="$(ASESIM_LOG=trace one optchk "$w1")"
        if [ "$a" = "$b" ] && [ "$b" = "$c" ] && [ "$c" = "$d" ] && [ "$d" = "$e" ]; then continue; fi
        echo "unopt : $a"; echo "rel   : $b"; echo "optchk: $c"; echo "optchk: $d (second process)"; echo "optchk: $e (log level Trace)"; echo "  (attempt $attempt)"
        echo "VIOLATION property=C16 replay=$f"; exit 1
      done
      echo "optchk: $c"; echo "replay $f: listings agree in 12 attempts"; exit 0;;
    asesim-c16-cell-diff)
      build optchk unopt rel || exit 2
      k="$(python3 -c 'import json,sys; print(json.load(open(sys.argv[1]))["base"])' "$f")"
      j="$(python3 -c 'import json,sys; print(json.load(open(sys.argv[1]))["cell"])' "$f")"
      a="$("$(exe unopt)" c16-digest --seed "$SEED" --cells-base "$k" 2>/dev/null | grep "^$k:$j ")"
      b="$("$(exe rel)" c16-digest --seed "$SEED" --cells-base "$k" 2>/dev/null | grep "^$k:$j ")"
      c="$("$(exe optchk)" c16-digest --seed "$SEED" --cells-base "$k" 2>/dev/null | grep "^$k:$j ")"
      t="$(ASESIM_LOG=trace "$(exe optchk)" c16-digest --seed "$SEED" --cells-base "$k" 2>/dev/null | grep "^$k:$j ")"
      echo "unopt : $a"; echo "rel   : $b"; echo "optchk: $c"; echo "optchk (log Trace): $t"
      if [ "$a" = "$b" ] && [ "$b" = "$c" ] && [ "$c" = "$t" ]; then echo "replay $f: listings agree"; exit 0; fi
      echo "VIOLATION property=C16 replay=$f"; exit 1;;
    asesim-c16-stress)
      build optchk || exit 2
      run="$(python3 -c 'import json,sys; print(json.load(open(sys.argv[1]))["run"])' "$f")"
      iters="$(python3 -c 'import json,sys; print(json.load(open(sys.argv[1]))["iters"])' "$f")"
      for k in $(seq 1 200); do
        out="$("$(exe optchk)" stress-c16 --seed "$SEED" --from "$run" --to $((run+1)) --threads 6 --iters $((iters*4)) 2>/dev/null)" && continue
        echo "$out" | head -2; echo "  (hit on attempt $k)"; echo "VIOLATION property=C16 replay=$f"; exit 1
      done
      echo "replay $f: 200 stress attempts, no differing result"; exit 0;;
    asesim-c16-miri)
      lo="$(python3 -c 'import json,sys; print(json.load(open(sys.argv[1]))["miri_seed"])' "$f")"
      rate="$(python3 -c 'import json,sys; print(json.load(open(sys.argv[1]))["preemption_rate"])' "$f")"
      cases="$(python3 -c 'import json,sys; print(json.load(open(sys.argv[1]))["cases"])' "$f")"
      MIRILOG="$TARGET/miri-replay.log"; mkdir -p "$TARGET"
      miri_run "$lo" $((lo+1)) "$rate" "$cases"; rc=$?
      tail -30 "$MIRILOG"
      if [ $rc -ne 0 ] && grep -qE "Undefined Behavior|Data race|C16 violation under Miri|PANIC" "$MIRILOG"; then echo "VIOLATION property=C16 replay=$f"; exit 1; fi
      [ $rc -ne 0 ] && { echo "HARNESS-ERROR: miri run failed for another reason" >&2; exit 2; }
      echo "replay $f: clean under Miri"; exit 0;;
    *) echo "unknown replay format $fmt" >&2; exit 2;;
  esac
fi

TIER="${1:-quick}"; SEED="${2:-1}"; WORKERS="${3:-$(nproc)}"
mkdir -p "$TARGET" "$OUT/evidence" "$OUT/replays"
VIOL=0; HARN=0
declare -a NOTES=()

# ---- 1. type ------------------------------------------------------------------------------
typecheck; rc=$?
TYPE_RESULT="holds"
if [ $rc -eq 1 ]; then
  TYPE_RESULT="violated"
  R="$OUT/replays/C16-s$SEED-typecheck.json"
  python3 - "$R" "$TARGET/typecheck.log" <<'EOF'
import json,sys
log=open(sys.argv[2]).read()
json.dump({"format":"asesim-c16-typecheck","property":"C16","seed":1,
  "expected":{"kind":"not-send-sync","signature":"C16|not-send-sync|type||AsepriteFile (or a view) is not Send + Sync"},
  "compiler_output":log[-4000:]},open(sys.argv[1],"w"),indent=1)
EOF
  grep -E "^error" -A8 "$TARGET/typecheck.log" | head -24
  echo "VIOLATION property=C16 replay=$R"
  echo "  kind=not-send-sync: asefile::AsepriteFile (or a borrowed view) is not Send + Sync"
  VIOL=1
elif [ $rc -eq 0 ]; then
  # informational: iterator values behind `impl Iterator` (not "the sprite type"; never a violation)
  if ! (cd "$HERE/typecheck" && CARGO_TARGET_DIR="$TARGET/typecheck" cargo check --offline --quiet --features notes "${CARGO_CFG[@]}" 2> "$TARGET/typecheck-notes.log"); then
    if grep -qE "cannot be (sent|shared) between threads safely" "$TARGET/typecheck-notes.log"; then
      echo "NOTE: an iterator returned by an accessor (impl Iterator) is not Send + Sync; the sprite type itself still is (informational, outside C16 as stated)"
    fi
  fi
elif [ $rc -eq 2 ]; then
  TYPE_RESULT="harness-error"
  echo "HARNESS-ERROR: typecheck crate failed to build for a reason other than Send/Sync:" >&2; tail -20 "$TARGET/typecheck.log" >&2
  HARN=1
fi

if [ "$TYPE_RESULT" = "violated" ]; then
  # the simulator itself shares &AsepriteFile across threads, so it cannot even be built against a
  # sprite type that is not Send + Sync: the type obligation alone decides the property here.
  T1=$(date +%s.%N)
  python3 - "$OUT/evidence/C16.json" "$TIER" "$SEED" "$T0" "$T1" <<'EOF2'
import json,sys
p,tier,seed,t0,t1=sys.argv[1:]
json.dump({"property_id":"C16","tier":tier,"seed":int(seed),"level":"exploration","wall_s":round(float(t1)-float(t0),1),"violations":1,
 "coverage":{"evaluations":1,"distinct_nontrivial":0,"rule":"type obligation failed; schedules not explored","samples":[{"obligation":"Send + Sync","result":"violated"}],
 "extra":{"1_type_send_sync":{"result":"violated"}}}},open(p,"w"),indent=1)
EOF2
  exit 1
fi
build optchk unopt rel || exit 2

# ---- 2 + 3a. histories, permutations, baton schedules ----------------------------------------
if [ "$TIER" = "thorough" ]; then PROFS="optchk unopt"; else PROFS="optchk"; fi
args=(); for p in $PROFS; do args+=(--exe "$p=$(exe "$p")"); done
"$(exe optchk)" run C16 --tier "$TIER" --seed "$SEED" --workers "$WORKERS" --verif "$OUT" --known "$HERE/known_findings.json" "${args[@]}"; rc=$?
[ $rc -eq 1 ] && VIOL=1
[ $rc -ge 2 ] && HARN=1

# ---- 4. configurations: same digests in unopt / rel / optchk / a second process ----------------
if [ "$TIER" = "thorough" ]; then NDIG=24000; else NDIG=1600; fi
D="$TARGET/c16-digests"; mkdir -p "$D"
digests unopt 0 "$NDIG" "$D/unopt.txt" "$WORKERS"
digests rel 0 "$NDIG" "$D/rel.txt" "$WORKERS"
digests optchk 0 "$NDIG" "$D/optchk.txt" "$WORKERS"
digests optchk 0 "$NDIG" "$D/optchk2.txt" 7
ASESIM_LOG=trace digests optchk 0 "$NDIG" "$D/optchktrace.txt" "$WORKERS"
DIFF_RESULT="$(python3 - "$D" "$NDIG" "$SEED" "$OUT/replays" "$WORKERS" <<'EOF'
import sys,json,collections
d,n,seed,rep=sys.argv[1],int(sys.argv[2]),sys.argv[3],sys.argv[4]
L={}
for p in ["unopt","rel","optchk","optchk2","optchktrace"]:
    m={}
    for line in open(f"{d}/{p}.txt"):
        i,_,rest=line.rstrip("\n").partition(" ")
        m[int(i)]=rest
    L[p]=m
bad=[]
for i in range(n):
    vals={p:L[p].get(i,"<missing>") for p in L}
    if len(set(vals.values()))!=1:
        bad.append((i,vals))
missing=[p for p in L if len(L[p])!=n]
classes=collections.Counter()
panics=0
for v in L["optchk"].values():
    classes[v.split(" ")[0] if not v.startswith("err") else "err"]+=1
    if "panics=" in v and not v.endswith("panics=0"): panics+=1
out={"runs":n,"mismatches":len(bad),"missing":missing,"classes":dict(classes),"runs_with_accessor_panics":panics,"distinct_digests":len(set(L["optchk"].values()))}
if bad:
    i,vals=bad[0]
    path=f"{rep}/C16-s{seed}-profile-diff-r{i}.json"
    json.dump({"format":"asesim-c16-profile-diff","property":"C16","seed":int(seed),"run":i,"runs":n,"workers":int(sys.argv[5]),"listings":vals,
      "expected":{"kind":"nondeterministic","signature":"C16|nondeterministic|profile-diff||observations differ between build profiles / processes"}},open(path,"w"),indent=1)
    out["replay"]=path; out["first"]=vals
print(json.dumps(out))
EOF
)"
if echo "$DIFF_RESULT" | grep -q '"replay"'; then
  R="$(echo "$DIFF_RESULT" | python3 -c 'import json,sys; print(json.load(sys.stdin)["replay"])')"
  echo "$DIFF_RESULT" | python3 -c 'import json,sys; d=json.load(sys.stdin); [print("  %-7s %s"%(k,v)) for k,v in d["first"].items()]'
  echo "VIOLATION property=C16 replay=$R"
  echo "  kind=nondeterministic: observation digests differ between build profiles / processes"
  VIOL=1
elif echo "$DIFF_RESULT" | grep -q '"missing": \[\]'; then :; else
  echo "HARNESS-ERROR: digest listings incomplete: $DIFF_RESULT" >&2; HARN=1
fi

# ---- 4b. configurations over a systematic space: every (field, boundary value) cell ----------
if [ "$TIER" = "thorough" ]; then NCB=76; else NCB=20; fi
CELLS_RESULT="clean"; CELLS_N=0
# (the unoptimised build is ~70x slower on pixel-heavy bases; overflow checks are equally on in
#  optchk, so the quick tier walks the cells with rel / optchk / optchk+Trace only)
if [ "$TIER" = "thorough" ]; then CELLPROFS="unopt rel optchk optchktrace"; else CELLPROFS="rel optchk optchktrace"; fi
for prof in $CELLPROFS; do
  rm -f "$D/cells-$prof".*.txt
  pexe="$(exe ${prof%trace})"; penv=""; [ "$prof" = optchktrace ] && penv="ASESIM_LOG=trace"
  seq 0 $((NCB-1)) | xargs -P "$WORKERS" -I{} sh -c "env $penv \"$pexe\" c16-digest --seed $SEED --cells-base {} > \"$D/cells-$prof.{}.txt\" 2>/dev/null"
  for k in $(seq 0 $((NCB-1))); do cat "$D/cells-$prof.$k.txt"; done > "$D/cells-$prof.txt"
  rm -f "$D/cells-$prof".[0-9]*.txt
done
CELLS_N=$(wc -l < "$D/cells-optchk.txt")
[ "$TIER" = "thorough" ] || cp "$D/cells-optchk.txt" "$D/cells-unopt.txt"
if ! cmp -s "$D/cells-unopt.txt" "$D/cells-rel.txt" || ! cmp -s "$D/cells-rel.txt" "$D/cells-optchk.txt" || ! cmp -s "$D/cells-optchk.txt" "$D/cells-optchktrace.txt"; then
  CELLS_RESULT="violated"
  first="$(paste -d'|' "$D/cells-unopt.txt" "$D/cells-rel.txt" "$D/cells-optchk.txt" "$D/cells-optchktrace.txt" | awk -F'|' '$1!=$2 || $2!=$3 || $3!=$4 {print; exit}')"
  cell="$(echo "$first" | cut -d' ' -f1)"
  R="$OUT/replays/C16-s$SEED-cell-diff-${cell/:/-}.json"
  python3 - "$R" "$SEED" "$cell" "$first" <<'EOF2'
import json,sys
k,j=sys.argv[3].split(":")
u,r,o,t=(sys.argv[4].split("|")+["","","",""])[:4]
json.dump({"format":"asesim-c16-cell-diff","property":"C16","seed":int(sys.argv[2]),"base":int(k),"cell":int(j),
 "listings":{"unopt":u,"rel":r,"optchk":o,"optchk-log-trace":t},
 "expected":{"kind":"nondeterministic","signature":"C16|nondeterministic|profile-diff||observations differ between build profiles / processes"}},open(sys.argv[1],"w"),indent=1)
EOF2
  echo "  unopt : $(echo "$first" | cut -d'|' -f1)"; echo "  rel   : $(echo "$first" | cut -d'|' -f2)"; echo "  optchk: $(echo "$first" | cut -d'|' -f3)"; echo "  optchk (log Trace): $(echo "$first" | cut -d'|' -f4)"
  echo "VIOLATION property=C16 replay=$R"
  echo "  kind=nondeterministic: a single-field boundary value gives different observations in different build profiles (wrapping arithmetic)"
  VIOL=1
fi
[ "$CELLS_N" -gt 0 ] || { echo "HARNESS-ERROR: cell walk produced no lines" >&2; HARN=1; }

# ---- 3c. free-running native threads (complement; sound oracle, schedule chosen by the OS) -----
if [ "$TIER" = "thorough" ]; then SRUNS=8000; SITERS=600; else SRUNS=640; SITERS=400; fi
STRESS_RESULT="clean"
SLOG="$TARGET/c16-stress.log"; : > "$SLOG"
step=$(( (SRUNS + WORKERS - 1) / WORKERS )); a=0; pids=()
while [ "$a" -lt "$SRUNS" ]; do
  b=$(( a + step )); [ "$b" -gt "$SRUNS" ] && b="$SRUNS"
  "$(exe optchk)" stress-c16 --seed "$SEED" --from "$a" --to "$b" --threads 6 --iters "$SITERS" >> "$SLOG" 2>/dev/null &
  pids+=($!); a="$b"
done
for p in "${pids[@]}"; do wait "$p"; done
if grep -q "^STRESS-VIOLATION" "$SLOG"; then
  line="$(grep -m1 "^STRESS-VIOLATION" "$SLOG")"
  srun="$(echo "$line" | sed -n 's/^STRESS-VIOLATION run \([0-9]*\) .*/\1/p')"
  STRESS_RESULT="violated"
  R="$OUT/replays/C16-s$SEED-stress-r$srun.json"
  python3 - "$R" "$SEED" "$srun" "$SITERS" "$line" <<'EOF2'
import json,sys
json.dump({"format":"asesim-c16-stress","property":"C16","seed":int(sys.argv[2]),"run":int(sys.argv[3]),"threads":6,"iters":int(sys.argv[4]),
 "note":"free-running OS threads: the oracle (result == sequential memo) is schedule-independent, the interleaving is not; replay re-runs the same stress up to 200 times and reports a violation if it hits again",
 "expected":{"kind":"nondeterministic","signature":"C16|nondeterministic|stress||a concurrent accessor call returned a different result than on one thread"},
 "observed":sys.argv[5]},open(sys.argv[1],"w"),indent=1)
EOF2
  echo "  $line"
  echo "VIOLATION property=C16 replay=$R"
  echo "  kind=nondeterministic: a concurrent accessor call returned a different result than the same call on one thread (native stress)"
  VIOL=1
fi

# ---- 3b. Miri -----------------------------------------------------------------------------
if [ "$TIER" = "thorough" ]; then MSEEDS=160; MCASES=4; RATES="0.05 0.3"; else MSEEDS=8; MCASES=3; RATES="0.1"; fi
MIRI_RESULT="clean"; MIRI_RUNS=0
for rate in $RATES; do
  MIRILOG="$TARGET/miri-$rate.log"
  miri_run 0 "$MSEEDS" "$rate" "$MCASES"; rc=$?
  okc=$(grep -c "miri-c16 ok" "$MIRILOG" || true)
  MIRI_RUNS=$(( MIRI_RUNS + okc ))
  if [ $rc -ne 0 ]; then
    if grep -qE "Undefined Behavior|Data race|C16 violation under Miri" "$MIRILOG"; then
      MIRI_RESULT="violated"
      # find the failing miri seed: replay seeds one at a time (cheap: only on failure)
      bad=""
      for s in $(seq 0 $((MSEEDS-1))); do
        MIRILOG="$TARGET/miri-find.log"
        miri_run "$s" $((s+1)) "$rate" "$MCASES" || { bad="$s"; break; }
      done
      [ -z "$bad" ] && bad=0
      R="$OUT/replays/C16-s$SEED-miri-seed$bad.json"
      python3 - "$R" "$SEED" "$bad" "$rate" "$MCASES" "$MIRILOG" <<'EOF'
import json,sys
log=open(sys.argv[6],errors="replace").read()
json.dump({"format":"asesim-c16-miri","property":"C16","seed":int(sys.argv[2]),"miri_seed":int(sys.argv[3]),"preemption_rate":sys.argv[4],"cases":int(sys.argv[5]),
 "expected":{"kind":"data-race","signature":"C16|data-race|miri||Miri reports undefined behaviour / a data race / a differing result under concurrent accessors"},
 "miri_output":log[-6000:]},open(sys.argv[1],"w"),indent=1)
EOF
      grep -E "Undefined Behavior|Data race|C16 violation" -A6 "$MIRILOG" | head -20
      echo "VIOLATION property=C16 replay=$R"
      echo "  kind=data-race: Miri (seed $bad, preemption rate $rate) reports UB / a data race / a differing result"
      VIOL=1
    else
      MIRI_RESULT="harness-error"
      echo "HARNESS-ERROR: miri run failed for a reason other than the property:" >&2; tail -20 "$MIRILOG" >&2
      HARN=1
    fi
    break
  fi
done

# ---- evidence: add the three side obligations to what asesim wrote ----------------------------
T1=$(date +%s.%N)
python3 - "$OUT/evidence/C16.json" "$TYPE_RESULT" "$DIFF_RESULT" "$MIRI_RESULT" "$MIRI_RUNS" "$MSEEDS" "$MCASES" "$RATES" "$VIOL" "$T0" "$T1" "$TIER" "$SEED" "$STRESS_RESULT" "$SRUNS" "$SITERS" "$CELLS_RESULT" "$CELLS_N" "$NCB" <<'EOF'
import json,sys
p,typ,diff,miri,mruns,mseeds,mcases,rates,viol,t0,t1,tier,seed,stress,sruns,siters,cells,cellsn,ncb=sys.argv[1:]
try:
    e=json.load(open(p))
except Exception:
    e={"property_id":"C16","tier":tier,"seed":int(seed),"level":"exploration","coverage":{"evaluations":0,"distinct_nontrivial":0,"rule":"","samples":[]},"wall_s":0}
d=json.loads(diff)
e["coverage"]["extra"]={
  "1_type_send_sync":{"result":typ,"how":"cargo check of /verif/typecheck (assert_send_sync::<AsepriteFile and all borrowed views>)"},
  "4b_configurations_cell_walk":{"result":cells,"cells_compared":int(cellsn),"bases":int(ncb),"profiles":(["unopt"] if tier=="thorough" else [])+["rel","optchk","optchk with log level Trace"],"what":"every (integer field, boundary value) cell of each base file; one digest line per cell per profile"},
  "3c_native_stress":{"result":stress,"runs":int(sruns),"threads":6,"iterations_per_thread":int(siters),"note":"free-running OS threads; sound oracle, OS-chosen interleavings (complement to the deterministic stages)"},
  "3b_miri":{"result":miri,"program_runs":int(mruns),"miri_seeds":int(mseeds),"cases_per_seed":int(mcases),"preemption_rates":rates.split(),
             "what":"2..3 free-running threads over &AsepriteFile on tiny sprites; Miri's seeded scheduler preempts inside accessors; data races / UB / result != sequential memo fail the run"},
  "4_configurations":{"profiles":["unopt (overflow => panic)","rel (overflow => wrap)","optchk","optchk second process","optchk with the host log level at Trace"],
             "runs_compared":d.get("runs"),"mismatches":d.get("mismatches"),"distinct_digests":d.get("distinct_digests"),"outcome_classes":d.get("classes"),
             "runs_with_accessor_panics":d.get("runs_with_accessor_panics")},
}
e["coverage"]["evaluations"]=int(e["coverage"].get("evaluations",0))+int(d.get("runs") or 0)*5+int(mruns)+int(sruns)+4*int(cellsn)
e["violations"]=max(int(e.get("violations",0)),int(viol))
e["wall_s"]=round(float(t1)-float(t0),1)
json.dump(e,open(p,"w"),indent=1)
EOF
echo "[C16] type=$TYPE_RESULT cells=$CELLS_RESULT($CELLS_N) stress=$STRESS_RESULT miri=$MIRI_RESULT ($MIRI_RUNS program runs) profile-diff: $(echo "$DIFF_RESULT" | cut -c1-160)"
[ $VIOL -ne 0 ] && exit 1
[ $HARN -ne 0 ] && exit 2
exit 0
